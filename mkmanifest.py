#!/usr/bin/env python3
"""Regenerates /verif/MANIFEST.json from the table below (kept by hand) and the
property modules that exist under symx/props/.  Run after adding a check."""
import json
import os

HERE = os.path.dirname(os.path.abspath(__file__))

TECH = "symbolic execution of the real functions from /repo (z3 proxies in pandas object columns); z3 decides every branch and discharges each obligation as unsat over all inputs within the bound; counterexamples replayed on the untouched code"

# per property: (level text, level note, design ref)
CLAIMS = {
    "C01": (
        "The real do_call (clonal; purity symbolic in (0,1), 1 and None) is executed on a table with an autosomal, an X and a Y row (with a PAR genome: an X or Y row with symbolic coordinates) for every ploidy 1..6 x reference sex x sample sex x naming x genome; n in 0..12 and the purity are solver variables and log2 is tied to them through an uninterpreted exp2 with sound lemmas. z3 proves per path that cn = n, that the rewritten log2 equals log2(max(n/ploidy, 0.001)) + reference shift, that cn is an integer >= 0 for every log2 in [-30, 30], and that without purity cn is the nearest integer to r*2^log2. Bounded model check (3 rows, n <= 12), reals instead of floats.",
        "Trusted: symx interception layer, z3 (nonlinear real arithmetic), exp2/log2 lemmas (each true of the real functions). With a genome and a free log2 the X/Y row takes coordinates from a concrete list of 12 representatives of every position class relative to PAR1/PAR2 (solver-chosen); the inversion harness keeps them symbolic.",
        "DESIGN.md 4/C01",
    ),
    "C02": (
        "The real absolute_threshold (symbolic strictly increasing thresholds, length 1..4 quick / 12 thorough) and do_call(method=threshold) (default and concrete vectors, NaN rows) run on symbolic log2 for ploidy 1..6 x chromosome class x reference sex x naming; z3 proves per path that cn equals the statement's step function (count of thresholds strictly below, rescaled and truncated on haploid chromosomes, ceil(r*2^log2) above the last), that NaN yields the reference copy number, that rows are preserved, monotonicity in log2 for the default thresholds (with exact rational enclosures of 2^threshold), cn = 2 at log2 0, and the allelic clauses cn1 + cn2 = cn, 0 <= cn1, cn2 <= cn, NaN exactly where BAF is missing and cn > 0 (BAF symbolic).",
        "Trusted: symx interception layer, z3, exp2 lemmas. Allelic harness: log2 from an 8-value grid and purity concrete (none/0.3/0.6/0.95) because absolute*baf under round() is nonlinear. Known finding D9 (ploidy 1 non-monotone) is listed in known_findings.json.",
        "DESIGN.md 4/C02",
    ),
    "C08": (
        "The real tabio writers and readers (tab, bed3, bed4, interval, text round trips incl. a second write; gff, picardhs, vcf-sites, vcf-simple, seg, interval, text read from generated lines; export-seg -> parse_seg; rangelabel) and sniff_region_format/read('auto') run on tables of 2-3 rows in every input order with symbolic coordinates (0 <= start < end <= 3*10^8) that travel through the real to_csv / split / re / read_csv as unique decimal tokens, with chromosome names from a pool covering the statement's alphabet. z3 proves per path: every row comes back with identical coordinates, names and integer columns; 1-based formats are read to 0-based half-open; rows are sorted by an independent natural-order oracle then start then end; the second write is byte-identical; the detected format is the writer's and its parser yields the same table.",
        "Trusted: symx interception layer incl. the token <-> proxy mapping around the C parser (read_csv), z3. Float columns carry concrete sample values (their %.6g text is produced by the real to_csv); pysam VCF is C18.",
        "DESIGN.md 4/C08",
    ),
    "C09": (
        "The real region_depth_count (with its read filter) runs on <= 2 stub reads of <= 3 aligned positions with symbolic start, flags, MAPQ, min_mapq and a symbolic bin (zero-width and reversed reachable): z3 proves depth * length = number of aligned positions of counted reads inside the bin, log2 = log2(depth) or (0, -20), the row's coordinates and name, and the read count. interval_coverages_count (serial) keeps one row per bin with its coordinates and name in chromosome order; interval_coverages_pileup is run on bedcov's 3/4/6-column output text with symbolic coordinates and base counts through the real column detection and read_csv: depth = base count / length, zero-width bins 0, log2 rule, names; to_chunks with a symbolic chunk size returns the regions file minus comment lines in chunks of exactly chunk_size lines (last one shorter, none empty).",
        "Trusted: symx interception layer, z3; stubs: read objects / AlignmentFile.fetch, pysam.bedcov's output format, in-memory regions file. Not decided: samtools bedcov itself (hence pileup = count), BAM decoding, real process pools.",
        "DESIGN.md 4/C09",
    ),
    "C10": (
        "Histories and schedules are replaced by one inductive step per API: for each of 25 entry points (do_call in every method with filter lists, segmentation, segmetrics, genemetrics, breaks, bintest, export bed/vcf, center_all on a copy, by_gene/by_arm, merge/flatten/subtract/intersection/subdivide/resize, target, antitarget, fix) run on symbolic tables, z3 proves per path that every cell of every argument table, every list/dict argument and every module-level value or function default of cnvlib/skgenome is unchanged, and that repeating the call gives the same table; with the frame intact and the result a function of the arguments only, call sequences of any length give the same tables. np.random is replaced by a generator whose draws are arbitrary solver-chosen outcomes until seeded: center_by_window (tied covariates), the bootstrap interval and shuffle give the same result as under the real generator. ensure_path on a dictionary file system with a solver-chosen set of pre-existing name, name.1..3: k writes leave k more files and every earlier content intact.",
        "Trusted: symx interception layer, z3; stubs: np.random (arbitrary until seeded), os (dictionary file system), norm.cdf, biweight_midvariance in do_fix. Real multi-process execution (1 vs N workers) is not exercised.",
        "DESIGN.md 4/C10",
    ),
    "C12": (
        "The real do_target (zero-width filter, --split through subdivide, label shortening) and do_antitarget (drop_noncanonical_contigs / guessed extents, resize_ranges(-500), subtract of the padded targets, subdivide) run on 1-2 baits and one accessible region with symbolic coordinates (overlap, nesting, abutting, zero width reachable) plus concrete untargeted canonical / non-canonical contigs. z3 proves per path: target bins cover exactly the union of the non-empty baits, are disjoint, ordered, cut into max(1, round(L/avg)) equal bins; antitargets are named Antitarget, lie inside the accessible region shrunk by 500 and outside every target padded by 500 (one universally quantified position), are pairwise disjoint, have size in [min, 1.5 avg], and cover every window of off-target accessible sequence of at least the minimum size; untargeted canonical contigs are binned, non-canonical ones skipped.",
        "Trusted: symx interception layer, z3. Average/minimum sizes are concrete ({(1000,300),(700,200)} with coordinates <= 6000); annotation files are not exercised.",
        "DESIGN.md 4/C12",
    ),
    "C13": (
        "The real do_access (get_regions scanner over in-memory FASTA lines, drop_noncanonical_contigs, subtract of exclude BEDs read by tabio, join_regions) runs on a sequence of up to 6 bases (8 thorough) whose every base is a solver-chosen N/non-N, for every line width, with 0-2 exclude regions with symbolic coordinates and a symbolic min_gap, plus a second sequence (empty, all-N, non-canonical, mixed case). z3 proves per path, for every position: reported iff it is a non-N non-excluded base or lies in an internal gap shorter than min_gap; regions non-empty, sorted, separated by at least one base, inside the sequence; non-canonical names dropped exactly when asked.",
        "Trusted: symx interception layer, z3; `open` is replaced by in-memory lines, exclude files are StringIO handles. The base sequence is concretised by solver forks (2^L sequences per line width), exclude coordinates and min_gap stay symbolic.",
        "DESIGN.md 4/C13",
    ),
    "C14": (
        "The real segfilters.cn/ci/sem/ampdel (squash_by_groups, enumerate_changes, squash_region, weighted_median) run on tables of <= 3 segments (4 thorough) over 1-2 chromosomes with symbolic cn, allele-specific cn, CI bounds, sem, log2, weights (0 reachable), probes and gapped coordinates; the run structure is decided by the solver and per path z3 proves: one output per maximal run of equal level, first start / last end, summed probes and weight, weight-averaged log2 (plain mean at zero weight), no merge across chromosomes, conservation of probes/weight, ampdel keeps only cn = 0 or >= 5. Filter lists (every order, at most one of ci/sem) run through the real do_call with symbolic log2: conservation of probes, weight and per-chromosome span, ordered disjoint outputs, neighbours differ in cn, unique index.",
        "Trusted: symx interception layer incl. the canonical-key groupby patch (hash buckets of pandas are made to respect solver-decided equality), z3. Chain harness uses concrete unequal weights.",
        "DESIGN.md 4/C14",
    ),
    "C15": (
        "The real center_all (median and mean estimators, as functions and by name; by_chrom on/off; skip_low on/off; PAR genome with a symbolic X bin), shift_xx and expect_flat_log2 run on 3-7 bins over autosomes/X/Y in both naming styles and with no autosome-like names; every log2 is symbolic in [-30, 10]. z3 proves per path that one constant is added to every bin, that the (two-level) estimator of the autosomal bins of the result is zero (independent closed-form median/mean terms), that null-coverage bins are ignored when asked, the X shift table of shift_xx with its input untouched, and the flat-reference values.",
        "Trusted: symx interception layer, z3. Not covered: mode/biweight estimators, the statistical sex-inference clause (scipy median_test), PAR-Y bins in expect_flat_log2.",
        "DESIGN.md 4/C15",
    ),
    "C16": (
        "The real by_gene, do_genemetrics (with and without segments), squash_genes and do_breaks run on 4-6 bins over 1-2 chromosomes whose gene names are solver-chosen from {G1, G2, Antitarget, '-', 'CGH'} under the statement's contiguity precondition, with default and filtered row index; log2, weights, depths, coordinates, the threshold and the segment boundary are symbolic. z3 proves per path that the yielded index sets equal the statement's partition (each bin exactly once), that exactly the genes reaching the threshold with enough bins are reported with true start/end/count/summed weight/weight-averaged depth/weighted mean log2, the per-segment gene parts, squashed coordinates, and the break list with its left/right counts.",
        "Trusted: symx interception layer, z3. Gene names are concrete strings per path (forked choice); bins naming several genes are outside the precondition; squash_genes gets a mean as summary function.",
        "DESIGN.md 4/C16",
    ),
    "C17": (
        "The real do_segmetrics runs on a table whose segments hold 0, 1, 2 and 3 bins (4 thorough; one bin straddles a segment edge) with symbolic bin and segment log2; z3 proves per path that mean/median are taken over exactly the overlapping bins, stdev/MAD/MSE/IQR/SEM over their deviations from the segment log2 (independent closed-form terms), that the t-test and the biweight midvariance receive exactly those values (spies), pi_lo/pi_hi are the alpha/2 and 1-alpha/2 percentiles with pi_lo <= median <= pi_hi, the bootstrap interval is ordered, inside the bins' range and identical on a second run, and the segments' own columns are unchanged. p_adjust_bh (symbolic p vectors of length <= 3, 4 thorough) equals the Benjamini-Hochberg step-up definition; do_bintest returns exactly the bins whose adjusted two-sided normal p (Phi uninterpreted, monotone, symmetric) is below a symbolic alpha, on-target only when asked.",
        "Trusted: symx interception layer, z3; stubs: scipy ttest_1samp and biweight_midvariance return fresh values, scipy sem is modelled as sqrt(var/n), norm.cdf is an uninterpreted Phi. Bootstrap resample indices are concrete (fixed seed) with concrete unequal weights.",
        "DESIGN.md 4/C17",
    ),
    "C18": (
        "The real read_vcf (sample / tumour-normal selection incl. PEDIGREE, record parsing, genotype and depth extraction, depth and somatic filters) runs behind tabio.read on stub records whose start, DP, AD counts, END and min_depth are symbolic and whose allele kind, SOMATIC flag, genotype and missing keys are solver-chosen, in both file orders: z3 proves per path the selected samples, that a record is kept exactly when it passes the filters, and each row's 0-based start, end, depth, alt count, alt_freq * depth = count, zygosity, somatic flag and normal columns, sorted with values attached to their own coordinates. load_het_snps keeps exactly the germline-heterozygous records; baf_by_ranges gives the median of the mirrored heterozygous frequencies inside each range (NaN where none; above_half None/True/False); TumorBoost and purity rescaling follow their formulas for symbolic frequencies.",
        "Trusted: symx interception layer, z3; pysam.VariantFile is a stub (header, records with the attributes the reader uses: htslib's own parsing is outside). Multi-allelic records are outside the statement.",
        "DESIGN.md 4/C18",
    ),
    "C19": (
        "The real descriptives (weighted_median, MAD, IQR, gapper, Qn, weighted MAD/std, on_array/on_weighted_array NaN handling; biweight location/midvariance only for n <= 2 and constant data) and smoothers (rolling_median through a window model of Series.rolling, unweighted kaiser, weighted savgol via convolve_weighted, _width2wing/_pad_array/check_inputs) run on symbolic vectors of length 1..4 (thorough up to 6); z3 proves per path non-negativity, zero on constants, shift invariance, scale equivariance (concrete factors), equality with independent closed-form definitions (sorting networks of If-terms), the half-weight clauses of the weighted median and its equality with the ordinary median for equal weights, one finite value per input, range and constant reproduction of the smoothers, and rolling median = median of the mirrored window.",
        "Trusted: symx interception layer (rolling/convolve/percentile models are compared with numpy/pandas by setup.sh's selfcheck), z3; sqrt uninterpreted. Not covered: biweight numerics beyond n = 2, modal_location, unweighted savgol (compiled scipy); linear filters carry a 1e-9 slack.",
        "DESIGN.md 4/C19",
    ),
    "C20": (
        "The real export_bed (show all/ploidy/variant), export_vcf/segments2vcf (records parsed back from the emitted text), export_seg/write_seg, merge_samples + fmt_cdt/fmt_jtv and export_nexus_basic run on segment tables with symbolic start (0 reachable), end, probes and either a symbolic cn column or a symbolic log2 (cn = round(r*2^log2), exp2 uninterpreted), for ploidy 1..6 x sexes x naming x PAR genome; symbolic integers travel through the emitted text as unique tokens. z3 proves per path: a row/record is emitted exactly when cn differs from ploidy / the expected copy number, 0-based BED coordinates, POS = max(start, 1), END, DEL/DUP, signed SVLEN, CN for gains, SEG rows per sample with start + 1, one row per bin with its label and each sample's log2 in its own column, mismatching bins and duplicate ids refused.",
        "Trusted: symx interception layer, z3, exp2 lemmas; read_cna is stubbed to hand in the harness's in-memory arrays (file parsing is C08). Digits of emitted floats are opaque tokens.",
        "DESIGN.md 4/C20",
    ),
    "C03": (
        "The real do_segmentation runs for the methods none, haar, hmm, hmm-tumor, hmm-germline on 3 bins of one chromosome or 2 + 2 bins of two (thorough 4 / 3 + 2) with symbolic coordinates, log2 (null coverage reachable), weights (0 reachable) and depths, with skip_low, min_weight and an arbitrary outlier mask; haarSeg's breakpoint set and the HMM's state sequence are arbitrary solver-chosen values, so every segmentation those components could return is explored through the real one_chrom / squash_by_groups / transfer_fields / concat code. z3 proves per path the statement's clauses: sorted, positive length, disjoint, inside the chromosome's input span, every surviving bin in exactly one segment, probes = count, sum of probes = survivors, arm endpoints for none/haar, weight = sum and depth = weighted mean over all input bins spanned, gene list, and weighted-mean log2 of the survivors for none/hmm.",
        "Trusted: symx interception layer, z3; stubs: haarSeg (arbitrary breakpoints), hmm_get_model.predict (arbitrary states), smooth_log2 (identity), rolling_outlier_quantile (arbitrary mask). cbs/flasso (R) and process pools are outside.",
        "DESIGN.md 4/C03",
    ),
    "C04": (
        "Decomposed as the whole pipeline explodes: (1) load_adjust_coverages / match_ref_to_sample / mask_bad_bins on a 4-bin reference where one bin at a time has fully symbolic log2/spread/depth/gc, against samples that hold all, a subset or a permutation of the bins, an absent bin or duplicated coordinates: exactly the bins whose coordinate-matched reference row passes the filters are kept, absent/duplicate refused; (2) the real do_fix with corrections off on 3 target + 0-2 antitarget bins with symbolic sample log2, reference log2 and spread (pooled or flat): within a class log2 = sample - reference + one constant, median of chromosome medians = 0, weights in [1e-4, 1] and monotone in bin size / reference spread, output unchanged by a symbolic depth rescaling (two runs); (3) center_by_window: each log2 is reduced by the rolling median over the covariate order (independent mirrored-window oracle) and genomic order is restored; edge_losses/edge_gains equal their documented formulas for symbolic sizes and gaps.",
        "Trusted: symx interception layer, z3; biweight_midvariance inside apply_weights is a solver-chosen member of {0, 0.3, 1.5}; coordinates concrete (pandas hashes coordinate tuples).",
        "DESIGN.md 4/C04",
    ),
    "C05": (
        "The real combine_probes / load_sample_block / bias_correct_logr / shift_sex_chroms / summarize_info run (corrections off) on cohorts of 1-2 samples (3 thorough) of every sex mix, for a male and a female reference, both naming styles, with and without antitarget files, every bin log2 symbolic; biweight_location / biweight_midvariance are spies, and z3 proves per path that each bin hands them exactly [neutral pseudo-sample, then each sample's log2 after median-centring (independent two-level median term) and the sex shift the statement prescribes], that the reference has exactly the input bins in genomic order, and that files whose bins differ are rejected. calculate_gc_lo is run on a symbolic sequence (<= 4 characters, 6 thorough, over ACGTacgtNn): gc and rmask are the G+C and lowercase fractions of the unambiguous bases; fasta_extract_regions requests the slice [start:end).",
        "Trusted: symx interception layer, z3; stubs: read_cna (in-memory arrays), the two biweight estimators (spies; their numerics are C19's subject), pyfaidx. Corrections on, sex inference and clustering are outside.",
        "DESIGN.md 4/C05",
    ),
    "C06": (
        "Every feasible path of the real merge/flatten/subtract/intersection/subdivide/resize_ranges/total_range_size code on tables of <= 3 rows (quick; 4 thorough) with fully symbolic integer coordinates in [0, 10^6] is enumerated by z3; on each path the base-exactness oracle (one universally quantified position x) and the structural clauses are discharged as unsat. A bounded model check of the real code, not a proof: nothing is claimed beyond the row bounds.",
        "Trusted: the symx interception layer (object-dtype pandas semantics = int64 semantics, validated by replaying explored paths on the untouched code), z3; avg/min sizes of subdivide concrete.",
        "DESIGN.md 4/C06",
    ),
    "C07": (
        "All paths of by_ranges/in_range/in_ranges/into_ranges/intersection (outer, inner, trim; keep_empty; open-ended queries; nested tables) for <= 2 rows x <= 2 queries (quick; 3 x 2 thorough) with symbolic coordinates; membership, clipping, order and summary clauses discharged per path as unsat obligations.",
        "Trusted: symx interception layer (validated by path replay), z3. Tables sorted by the real GenomicArray.sort.",
        "DESIGN.md 4/C07",
    ),
}

NOT_APPLICABLE = {
    "C11": "statistical claim over >= 200-dimensional noisy real inputs through scipy savgol/norm.cdf and pomegranate Cython HMM; no bounded symbolic encoding of the real code exists (no reduction to <= 4 bins has >= 100 bins per side) and the worst-case reading of the noise bound is false; see DESIGN.md 4/C11",
}

PENDING_REASON = "no solver-based check is registered for this property yet in this tree (planned in DESIGN.md section 4); not claimed"


# round-2 additions to the harnesses (appended to the level text; details: DESIGN.md 9.2)
ADDENDA = {
    "C01": "Fixed-width integer casts are modelled as numpy performs them (a cast of cn to int32 is decided, not aborted).",
    "C02": "Also tables in which a chromosome is revisited (its rows not contiguous).",
    "C03": "Two concrete gene namings (placeholders -, ., CGH, Background among the first bins in the configurations without filters).",
    "C04": "Also: do_fix on the same bins with the rows of target, antitarget and reference reversed / rotated / swapped against the call on sorted rows, corrections on and off, distinct and tied covariates (same bins, genomic order, same log2 and weight: found D17, fixed); a chrX target bin in the arithmetic harness (centring is over the autosomes); matching on the same start/end tiling on two chromosomes (reference chromosomes in the other order; the sample's second chromosome absent from the reference must be refused).",
    "C05": "Also: do_reference with the sexes inferred (guess_xx's answer solver-chosen per file: antitarget call, else target call), null-coverage antitarget bins, target files listed in another order, and summarize_info with the real biweight estimators on two structured families (far outlier discarded low and high; >= 2 normals that agree after centring reproduce their level with spread 0); a panel with chrY but no chrX bins; stated sexes; combine_probes with the edge correction on for normals that differ only in depth.",
    "C08": "Name pool includes upper/mixed-case chr prefixes.",
    "C09": "Bins as long as a chromosome (depth below 2^-20 reachable), bins past a symbolic contig end, a bin name containing a blank; interval_coverages_count with 1 vs N workers over an in-process stand-in pool; ensure_bam_index over a dictionary file system with symbolic modification times. Reads carry 0-2 soft-clipped bases at either end and a hole of 0-2 reference bases before the last aligned base (query_length, reference_end, reference_length as pysam reports them).",
    "C10": "Also do_fix on caller tables that are not in genomic order, do_segmentation with 1 vs N workers over an in-process stand-in pool, by_arm with thresholds small enough to look for a centromere, export_vcf with its bin table; generators the code creates for itself are re-set per path execution and advance within it.",
    "C12": "Also a panel targeting a canonical and a non-canonical contig with another non-canonical contig untargeted, and natural chromosome order (chr2 before chr10) of split target bins.",
    "C14": "Allele-specific copy numbers are part of the level of every filter (doc/pipeline.rst), with ampdel/ci/sem configurations on already-called tables.",
    "C15": "Also a depth column (depth 0 = null coverage), an X/Y-only table with a PAR genome, and -1 on all of Y for a female reference.",
    "C16": "Also the sex-adjustment options on chrX genes, zero-depth bins and zero-weight bins (a gene's total weight positive).",
    "C17": "Also bintest with bins on two chromosomes and the segment table in the other order, the Background alias, alpha exactly at an adjusted p (taken from a first run), a row-subset segment table, and bivar with the real biweight_midvariance on the far-outlier family. do_bintest is called twice on the same tables (the bin table still holds its own log2; same bins, p and residuals).",
    "C18": "Also: frequencies are never missing (sample and paired normal), INFO/DP as the last resort for the depth, the TumorBoost tie t = n = 0, one-chromosome segment tables against two-chromosome variants, and the BAF of segments merged by do_call(filters=[ci|sem]). The FORMAT keys may differ per record (a record with a genotype only next to one with DP/AD).",
    "C19": "Also exactly one finite value among NaNs for every on_array estimator. Float64-only behaviour can surface only through the replay phase (a real run that fails a discharged claim is reported as a violation): sampling, not a solver verdict.",
    "C20": "Also seg export where one sample has no probes column.",
}


def main():
    props = [json.loads(l)["id"] for l in open(os.path.join(HERE, "properties.jsonl"))]
    built = sorted(f[:-3] for f in os.listdir(os.path.join(HERE, "symx", "props")) if f.startswith("C") and f.endswith(".py"))
    checks = []
    for pid in props:
        if pid in CLAIMS and pid in built:
            text, note, ref = CLAIMS[pid]
            if pid in ADDENDA:
                text = text + " " + ADDENDA[pid]
            checks.append(
                {
                    "property_id": pid,
                    "quick_cmd": f"./check {pid} --tier quick",
                    "thorough_cmd": f"./check {pid} --tier thorough",
                    "evidence_file": f"evidence/{pid}.json",
                    "replay_cmd_template": f"./check {pid} --replay {{path}}",
                    "engine": "symx",
                    "level_claimed": {"category": "model_checking", "text": text, "design_ref": ref},
                    "level_note": note,
                    "technique": TECH,
                }
            )
    claimed = {c["property_id"] for c in checks}
    na = []
    for pid in props:
        if pid in claimed:
            continue
        na.append({"property_id": pid, "reason": NOT_APPLICABLE.get(pid, PENDING_REASON)})
    man = {
        "version": 1,
        "setup_cmd": "cd /verif && ./setup.sh",
        "hooks": {
            "guard": "none (no source changes: the real modules are compiled from /repo's working tree by an import hook inside the checker process)",
            "enable": "nothing to enable; ./check compiles cnvlib/skgenome from /repo's current files on every run",
            "baseline_off_cmd": "cd /repo && /venv/bin/python -m pytest -ra -q -p no:cacheprovider --timeout=900 --continue-on-collection-errors",
            "source_commits": [],
            "add_only": True,
        },
        "engines": [
            {
                "name": "symx",
                "path": "symx/",
                "serves_properties": sorted(claimed),
                "kind_free_text": "concolic symbolic execution of the real cnvlib/skgenome code on real pandas with z3-backed proxy scalars; z3 decides every branch and every obligation; counterexamples and paths are replayed on the untouched code",
            }
        ],
        "checks": checks,
        "not_applicable": na,
        "notes": "Exit codes of ./check: 0 held (KNOWN-FINDING lines for listed findings), 1 reproduced VIOLATION, 2 inconclusive/harness error (never a verdict). Known findings and fixes: known_findings.json.",
    }
    with open(os.path.join(HERE, "MANIFEST.json"), "w") as fh:
        json.dump(man, fh, indent=1)
        fh.write("\n")
    print("checks:", sorted(claimed), "not_applicable:", [e["property_id"] for e in na])


if __name__ == "__main__":
    main()
