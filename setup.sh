#!/bin/bash
# Builds what the checks need from files on disk only (offline).
cd "$(dirname "$0")" || exit 2
if [ ! -d .deps/z3 ]; then
  /venv/bin/python -m pip install --quiet --no-index --no-deps --find-links /opt/veriftools/wheels --target .deps z3-solver || exit 2
fi
export PYTHONPATH="$PWD:$PWD/.deps" PYTHONDONTWRITEBYTECODE=1
/venv/bin/python -c "import z3; print('z3', z3.get_version_string())" || exit 2
/venv/bin/python -m symx.selfcheck || exit 2
mkdir -p out evidence
