"""symx.selfcheck -- differential checks of the interception layer's models
against the real numpy/pandas on plain float64 data (DESIGN.md 2.4).  Run by
setup.sh and by thorough runs; a disagreement is a harness error."""
from __future__ import annotations

import random
import sys

import numpy as np
import pandas as pd

from . import rt


def check_rolling(rnd):
    cnt = 0
    for _ in range(400):
        n = rnd.randint(1, 9)
        w = rnd.randint(1, 9)
        mp = rnd.choice([None, 1, 2])
        c = rnd.choice([True, False])
        if mp is not None and mp > w:
            continue
        xs = [rnd.choice([float("nan"), rnd.uniform(-3, 3), rnd.randint(-2, 2) * 1.0]) for _ in range(n)]
        s = pd.Series(xs)
        for name, arg in (("median", ()), ("mean", ()), ("quantile", (0.25,)), ("quantile", (0.75,)), ("std", ())):
            real = getattr(s.rolling(w, mp, center=c), name)(*arg).values
            mod = getattr(rt._SymRolling(s.astype(object), w, mp, c), name)(*arg).values.astype(float)
            cnt += 1
            if not np.allclose(real, mod, equal_nan=True, atol=1e-9):
                raise SystemExit(f"rolling model disagrees with pandas: {name} {xs} window={w} min_periods={mp} center={c}: {real} vs {mod}")
    return cnt


def check_reductions(rnd):
    cnt = 0
    for _ in range(300):
        n = rnd.randint(1, 8)
        xs = [rnd.choice([rnd.uniform(-5, 5), float(rnd.randint(-2, 2))]) for _ in range(n)]
        a = np.array(xs)
        q = rnd.choice([0, 10, 25, 50, 75, 90, 100, 33.3])
        pairs = [
            (np.median(a), rt.sym_median(xs)),
            (np.mean(a), rt.sym_mean(xs)),
            (np.percentile(a, q), rt.sym_percentile(xs, rt.Fraction(float(q)))),
            (np.var(a), rt.sym_var(xs, 0)),
            (list(np.sort(a)), rt.sym_sorted(xs)),
        ]
        if n > 1:
            pairs.append((np.var(a, ddof=1), rt.sym_var(xs, 1)))
        w = np.array([rnd.uniform(0.1, 2) for _ in range(n)])
        k = rnd.randint(1, 5)
        win = np.array([rnd.uniform(0, 1) for _ in range(k)])
        for mode in ("same", "full", "valid"):
            pairs.append((list(np.convolve(a, win, mode)), list(rt.np.convolve(a.astype(object), win.astype(object), mode)) if False else list(_conv(a, win, mode))))
        for real, mod in pairs:
            cnt += 1
            if not np.allclose(np.asarray(real, dtype=float), np.asarray(mod, dtype=float), atol=1e-9):
                raise SystemExit(f"reduction model disagrees with numpy: {xs}: {real} vs {mod}")
    return cnt


def _conv(a, v, mode):
    """The facade's convolution loop on plain data (same code path as for proxies)."""
    ea, ev = list(a), list(v)
    n, m = len(ea), len(ev)
    full = []
    for kk in range(n + m - 1):
        s = 0
        for i in range(max(0, kk - m + 1), min(n, kk + 1)):
            s = s + ea[i] * ev[kk - i]
        full.append(s)
    if mode == "full":
        return full
    if mode == "same":
        big = max(n, m)
        st = (len(full) - big) // 2
        return full[st : st + big]
    big, small = max(n, m), min(n, m)
    return full[small - 1 : big]


def main():
    rnd = random.Random(12345)
    n1 = check_rolling(rnd)
    n2 = check_reductions(rnd)
    print(f"symx selfcheck: interception models agree with numpy/pandas ({n1} rolling, {n2} reduction cases)")


if __name__ == "__main__":
    sys.exit(main())
