"""symx.core -- proxies, path contexts and the depth-first path explorer.

A *harness* is a Python function ``fn(ctx, **config)``.  It asks ``ctx`` for
inputs (``ctx.int``, ``ctx.real`` ...), runs the real code from /repo on them,
and states the property with ``ctx.claim``.  The same harness runs

* under :class:`SymCtx` -- inputs are z3-backed proxies; every Python-level
  ``bool()`` of a symbolic comparison is a branch point decided by the solver;
  all feasible paths are enumerated by re-execution; every claim is one
  ``unsat`` obligation over all inputs that follow the path;
* under :class:`ConcreteCtx` -- inputs are plain ints/floats taken from a solver
  model; used to replay paths and counterexamples on the untouched real code.
"""
from __future__ import annotations

import math
import os
import time
from fractions import Fraction

import numpy as np
import z3

# --------------------------------------------------------------------------
# signals (BaseException: must pass through ``except Exception`` in the code
# under test)


class EngineSignal(BaseException):
    pass


class PathAbort(EngineSignal):
    """The engine cannot continue this path (gap / unknown / limits)."""

    def __init__(self, reason):
        super().__init__(reason)
        self.reason = reason


class Realize(PathAbort):
    """C code asked a proxy for a machine number."""


class Prune(EngineSignal):
    """An assumption is infeasible on this path: the path is outside the
    harness precondition and ends silently."""


class HarnessError(EngineSignal):
    pass


class PreconditionFailed(EngineSignal):
    """Concrete mode: the supplied inputs do not satisfy an assumption."""


CUR = None  # the active context (one per process at a time)


def cur():
    return CUR


# --------------------------------------------------------------------------
# uninterpreted transcendental functions

_R = z3.RealSort()
EXP2 = z3.Function("exp2", _R, _R)
LOG2 = z3.Function("log2", _R, _R)
SQRT = z3.Function("sqrt", _R, _R)
PHI = z3.Function("Phi", _R, _R)
UF_NAMES = ("exp2", "log2", "sqrt", "Phi")
_EXP2_POINTS = (-30, -20, -10, -6, -4, -3, -2, -1, 0, 1, 2, 3, 4, 6, 10, 20, 30)


def _frac(x):
    """Exact rational of a python/numpy number."""
    if isinstance(x, Fraction):
        return x
    if isinstance(x, (bool, np.bool_)):
        return Fraction(int(x))
    if isinstance(x, (int, np.integer)):
        return Fraction(int(x))
    return Fraction(float(x))


def realval(x):
    f = _frac(x)
    return z3.RealVal(f"{f.numerator}/{f.denominator}") if f.denominator != 1 else z3.RealVal(f.numerator)


def _enclose_exp2(c: Fraction, bits=60):
    """Rational enclosure lo < 2**c < hi for a rational c, by exact integer
    arithmetic (bisection on the monotone map y -> y**q vs 2**p)."""
    if c.denominator == 1:
        v = Fraction(2) ** int(c)
        return v, v
    # use float as seed then verify/widen with exact arithmetic on a dyadic grid
    # 2**c = 2**floor(c) * 2**frac, frac in (0,1): enclose 2**frac by bisection
    fl = math.floor(c)
    fr = c - fl
    p, q = fr.numerator, fr.denominator
    # if q is huge (float literals have q = 2**k) use interval arithmetic via
    # repeated square roots: 2**(p/2**k) -- do bisection on y in [1,2] comparing
    # log2(y) with fr using exact squaring of intervals (k steps of the classic
    # binary-logarithm algorithm, inverted).  Simpler and sufficient: enclose by
    # Taylor series of exp(fr*ln2) with rational bounds for ln2.
    ln2_lo = Fraction(6931471805599453094172321214581765, 10**34)
    ln2_hi = ln2_lo + Fraction(1, 10**34)
    # limit the size of fr to keep the arithmetic small
    D = 2**80
    fr_lo = Fraction(math.floor(fr * D), D)
    fr_hi = Fraction(math.ceil(fr * D), D)

    def exp_bounds(x_lo, x_hi):  # 0 <= x < 1
        n = 30
        lo = sum((x_lo**k) / math.factorial(k) for k in range(n))
        hi = sum((x_hi**k) / math.factorial(k) for k in range(n)) + 2 * (x_hi**n) / math.factorial(n)
        return lo, hi

    lo, _ = exp_bounds(fr_lo * ln2_lo, fr_lo * ln2_lo)
    _, hi = exp_bounds(fr_hi * ln2_hi, fr_hi * ln2_hi)
    sc = Fraction(2) ** fl
    # round outward to a modest denominator
    E = 2**bits
    lo = Fraction(math.floor(lo * sc * E) - 1, E)
    hi = Fraction(math.ceil(hi * sc * E) + 1, E)
    return lo, hi


def _enclose_log2(c: Fraction, bits=60):
    """Rational enclosure lo <= log2(c) <= hi for rational c > 0."""
    assert c > 0
    # exact for powers of two
    n = c.numerator
    d = c.denominator
    if n & (n - 1) == 0 and d & (d - 1) == 0:
        v = Fraction(n.bit_length() - d.bit_length())
        return v, v
    f = math.log2(c)
    E = 2**40
    lo = Fraction(math.floor(f * E) - 2, E)
    hi = Fraction(math.ceil(f * E) + 2, E)
    # verify with the exp2 enclosure (exact arithmetic): 2**lo < c < 2**hi
    _, e_lo_hi = _enclose_exp2(lo)
    e_hi_lo, _ = _enclose_exp2(hi)
    assert e_lo_hi < c < e_hi_lo, "log2 enclosure failed"
    return lo, hi


# --------------------------------------------------------------------------
# proxies


def is_sym(x):
    return isinstance(x, Sym)


def _is_num(x):
    return isinstance(x, (int, float, np.integer, np.floating, Fraction, bool, np.bool_))


class Sym:
    """Base class of the proxies.  ``__array_ufunc__ = None`` makes numpy
    arrays/scalars defer to our reflected operators."""

    __array_ufunc__ = None
    __slots__ = ("t",)

    def __init__(self, t):
        self.t = t

    def __repr__(self):
        return f"<{type(self).__name__} {self.t}>"

    def __hash__(self):
        # all proxies collide; dict/set lookups then call __eq__, which forks
        return 0


def _map_arr(arr, f):
    out = np.empty(arr.shape, dtype=object)
    flat_in = arr.ravel()
    flat_out = out.ravel()
    for i in range(flat_in.shape[0]):
        flat_out[i] = f(flat_in[i])
    return out


def _map_bool_arr(arr, f):
    out = np.empty(arr.shape, dtype=bool)
    flat_in = arr.ravel()
    flat_out = out.ravel()
    for i in range(flat_in.shape[0]):
        flat_out[i] = bool(f(flat_in[i]))
    return out


def wrap(t):
    """z3 term -> proxy or plain python value when it is a literal."""
    s = t.sort()
    k = s.kind()
    if k == z3.Z3_BOOL_SORT:
        if z3.is_true(t):
            return True
        if z3.is_false(t):
            return False
        return SymBool(t)
    if k == z3.Z3_INT_SORT:
        return SymInt(t)
    return SymReal(t)


def lift(x):
    """python value or proxy -> (z3 term, kind) with kind in 'b','i','r'."""
    if isinstance(x, Sym):
        return x.t, x.kind
    if isinstance(x, (bool, np.bool_)):
        return z3.BoolVal(bool(x)), "b"
    if isinstance(x, (int, np.integer)):
        return z3.IntVal(int(x)), "i"
    if isinstance(x, (float, np.floating)):
        xf = float(x)
        if xf != xf or xf in (math.inf, -math.inf):
            raise _NonFinite(xf)
        return realval(xf), "r"
    if isinstance(x, Fraction):
        return realval(x), "r"
    raise TypeError(f"cannot lift {type(x)!r}")


class _NonFinite(Exception):
    def __init__(self, v):
        self.v = v


def _to_real(t, k):
    if k == "r":
        return t
    if k == "i":
        return z3.ToReal(t)
    return z3.If(t, z3.RealVal(1), z3.RealVal(0))


def _to_int(t, k):
    if k == "i":
        return t
    if k == "b":
        return z3.If(t, z3.IntVal(1), z3.IntVal(0))
    raise TypeError


def _arith(a, b, op):
    """a, b: python numbers or proxies (at least one proxy)."""
    if isinstance(b, np.ndarray):
        return _map_arr(b, lambda e: _arith(a, e, op))
    if isinstance(a, np.ndarray):
        return _map_arr(a, lambda e: _arith(e, b, op))
    if not (isinstance(a, Sym) or _is_num(a)) or not (isinstance(b, Sym) or _is_num(b)):
        return NotImplemented
    try:
        ta, ka = lift(a)
        tb, kb = lift(b)
    except _NonFinite as nf:
        # arithmetic with NaN/inf: NaN propagates; inf is not modelled
        if nf.v != nf.v:
            return float("nan")
        raise PathAbort("infinite float in symbolic arithmetic")
    if op == "truediv":
        ta, tb = _to_real(ta, ka), _to_real(tb, kb)
        return _mk_real(ta / tb)
    if op == "floordiv" or op == "mod":
        if ka in "ib" and kb in "ib":
            ta, tb = _to_int(ta, ka), _to_int(tb, kb)
            if z3.is_int_value(tb) and tb.as_long() > 0:
                return SymInt(ta / tb) if op == "floordiv" else SymInt(ta % tb)
            q = z3.If(tb > 0, ta / tb, (-ta) / (-tb))
            if op == "floordiv":
                return SymInt(q)
            return SymInt(ta - tb * q)
        ta, tb = _to_real(ta, ka), _to_real(tb, kb)
        q = z3.ToReal(z3.ToInt(ta / tb))
        if op == "floordiv":
            return _mk_real(q)
        return _mk_real(ta - tb * q)
    if ka in "ib" and kb in "ib":
        ta, tb = _to_int(ta, ka), _to_int(tb, kb)
        mk = SymInt
    else:
        ta, tb = _to_real(ta, ka), _to_real(tb, kb)
        mk = _mk_real
    if op == "add":
        return mk(ta + tb)
    if op == "sub":
        return mk(ta - tb)
    if op == "mul":
        return mk(ta * tb)
    raise AssertionError(op)


def _mk_real(t):
    return SymReal(t)


def _cmp(a, b, op):
    if isinstance(b, np.ndarray):
        return _map_bool_arr(b, lambda e: _cmp(a, e, op))
    if b is None or isinstance(b, (str, bytes, tuple, list, dict)):
        if op == "eq":
            return False
        if op == "ne":
            return True
        return NotImplemented
    if not (isinstance(b, Sym) or _is_num(b)):
        return NotImplemented
    try:
        ta, ka = lift(a)
        tb, kb = lift(b)
    except _NonFinite as nf:
        v = nf.v
        if v != v:
            return op == "ne"
        # comparison with +-inf of a finite symbolic value
        # (a is the proxy unless reflected; both cases handled by the sign)
        a_is_inf = not isinstance(a, Sym)
        pos = v > 0
        if op in ("eq",):
            return False
        if op == "ne":
            return True
        if a_is_inf:
            # inf <op> x
            return {"lt": not pos, "le": not pos, "gt": pos, "ge": pos}[op]
        return {"lt": pos, "le": pos, "gt": not pos, "ge": not pos}[op]
    if ka == "b" and kb == "b":
        if op == "eq":
            return wrap(z3.simplify(ta == tb))
        if op == "ne":
            return wrap(z3.simplify(ta != tb))
    if ka in "ib" and kb in "ib":
        ta, tb = _to_int(ta, ka), _to_int(tb, kb)
    else:
        ta, tb = _to_real(ta, ka), _to_real(tb, kb)
    if op == "eq":
        t = ta == tb
    elif op == "ne":
        t = ta != tb
    elif op == "lt":
        t = ta < tb
    elif op == "le":
        t = ta <= tb
    elif op == "gt":
        t = ta > tb
    else:
        t = ta >= tb
    return wrap(z3.simplify(t))


class _Num(Sym):
    __slots__ = ()

    # arithmetic
    def __add__(self, o):
        return _arith(self, o, "add")

    def __radd__(self, o):
        return _arith(o, self, "add")

    def __sub__(self, o):
        return _arith(self, o, "sub")

    def __rsub__(self, o):
        return _arith(o, self, "sub")

    def __mul__(self, o):
        return _arith(self, o, "mul")

    def __rmul__(self, o):
        return _arith(o, self, "mul")

    def __truediv__(self, o):
        return _arith(self, o, "truediv")

    def __rtruediv__(self, o):
        return _arith(o, self, "truediv")

    def __floordiv__(self, o):
        return _arith(self, o, "floordiv")

    def __rfloordiv__(self, o):
        return _arith(o, self, "floordiv")

    def __mod__(self, o):
        return _arith(self, o, "mod")

    def __rmod__(self, o):
        return _arith(o, self, "mod")

    def __neg__(self):
        return type(self)(-self.t)

    def __pos__(self):
        return self

    def __abs__(self):
        return type(self)(z3.If(self.t >= 0, self.t, -self.t))

    def __pow__(self, o):
        if isinstance(o, (int, np.integer)) and 0 <= int(o) <= 4:
            r = 1
            for _ in range(int(o)):
                r = r * self
            return r
        if _is_num(o) and float(o) == 0.5:
            return sqrt(self)
        raise PathAbort(f"unsupported power {o!r}")

    def __rpow__(self, o):
        if _is_num(o) and float(o) == 2.0:
            return exp2(self)
        raise PathAbort(f"unsupported power base {o!r}")

    # comparisons
    def __eq__(self, o):
        return _cmp(self, o, "eq")

    def __ne__(self, o):
        return _cmp(self, o, "ne")

    def __lt__(self, o):
        return _cmp(self, o, "lt")

    def __le__(self, o):
        return _cmp(self, o, "le")

    def __gt__(self, o):
        return _cmp(self, o, "gt")

    def __ge__(self, o):
        return _cmp(self, o, "ge")

    __hash__ = Sym.__hash__

    def __bool__(self):
        return bool(self != 0)

    # numpy calls these methods element-wise on object arrays
    def log2(self):
        return log2(self)

    def exp2(self):
        return exp2(self)

    def sqrt(self):
        return sqrt(self)

    def conjugate(self):
        return self

    def __float__(self):
        raise Realize(f"float() of symbolic value {self.t}")

    def __complex__(self):
        raise Realize("complex() of symbolic value")


class SymInt(_Num):
    __slots__ = ()
    kind = "i"

    def __int__(self):
        raise Realize(f"int() of symbolic value {self.t}")

    def __index__(self):
        return CUR.concretize(self.t)

    def __round__(self, n=None):
        return self

    def __trunc__(self):
        return self

    def __floor__(self):
        return self

    def __ceil__(self):
        return self

    def __str__(self):
        return CUR.render_int(self)

    def __format__(self, spec):
        s = CUR.render_int(self)
        if spec in ("", "d", "s"):
            return s
        return format(int(s), spec) if not spec.endswith("s") else format(s, spec)

    def __and__(self, o):
        raise PathAbort("bit-and on symbolic int")

    @property
    def real(self):
        return self

    def is_integer(self):
        return True


class SymReal(_Num):
    __slots__ = ()
    kind = "r"

    def __int__(self):
        raise Realize(f"int() of symbolic value {self.t}")

    def __trunc__(self):
        x = self.t
        return SymInt(z3.If(x >= 0, z3.ToInt(x), -z3.ToInt(-x)))

    def __floor__(self):
        return SymInt(z3.ToInt(self.t))

    def __ceil__(self):
        return SymInt(-z3.ToInt(-self.t))

    def __round__(self, n=None):
        if n is None:
            return SymInt(_round_half_even(self.t))
        sc = Fraction(10) ** int(n)
        return SymReal(z3.ToReal(_round_half_even(self.t * realval(sc))) / realval(sc))

    def __str__(self):
        return CUR.render_real(self)

    def __repr__(self):
        return f"<SymReal {self.t}>"

    def __format__(self, spec):
        # the digits of a symbolic real are not modelled: it is rendered as a unique
        # decimal token that float() maps back to the same symbolic value
        return CUR.render_real(self)

    def is_integer(self):
        return bool(wrap(z3.simplify(z3.IsInt(self.t))))


def _round_half_even(x):
    f = z3.ToInt(x)
    d = x - z3.ToReal(f)
    half = z3.RealVal("1/2")
    return z3.If(d < half, f, z3.If(d > half, f + 1, z3.If(f % 2 == 0, f, f + 1)))


class SymBool(Sym):
    __slots__ = ()
    kind = "b"

    def __bool__(self):
        return CUR.branch(self.t)

    def __and__(self, o):
        if isinstance(o, np.ndarray):
            return _map_arr(o, lambda e: self & e)
        if isinstance(o, (bool, np.bool_)):
            return self if o else False
        if isinstance(o, SymBool):
            return wrap(z3.simplify(z3.And(self.t, o.t)))
        return NotImplemented

    __rand__ = __and__

    def __or__(self, o):
        if isinstance(o, np.ndarray):
            return _map_arr(o, lambda e: self | e)
        if isinstance(o, (bool, np.bool_)):
            return True if o else self
        if isinstance(o, SymBool):
            return wrap(z3.simplify(z3.Or(self.t, o.t)))
        return NotImplemented

    __ror__ = __or__

    def __xor__(self, o):
        if isinstance(o, (bool, np.bool_)):
            return ~self if o else self
        if isinstance(o, SymBool):
            return wrap(z3.simplify(z3.Xor(self.t, o.t)))
        return NotImplemented

    __rxor__ = __xor__

    def __invert__(self):
        return wrap(z3.simplify(z3.Not(self.t)))

    def __eq__(self, o):
        if isinstance(o, (bool, np.bool_, SymBool)):
            return _cmp(self, o, "eq")
        if _is_num(o) or isinstance(o, Sym):
            return SymInt(_to_int(self.t, "b")) == o
        return False

    def __ne__(self, o):
        r = self.__eq__(o)
        return (not r) if isinstance(r, bool) else ~r

    __hash__ = Sym.__hash__

    # bools count as ints in sums
    def _as_int(self):
        return SymInt(z3.If(self.t, z3.IntVal(1), z3.IntVal(0)))

    def __add__(self, o):
        return self._as_int() + o

    __radd__ = __add__

    def __mul__(self, o):
        return self._as_int() * o

    __rmul__ = __mul__

    def __sub__(self, o):
        return self._as_int() - o

    def __rsub__(self, o):
        return o - self._as_int()

    def __int__(self):
        return 1 if bool(self) else 0

    def __index__(self):
        return 1 if bool(self) else 0


# --------------------------------------------------------------------------
# transcendental helpers (work on plain numbers in concrete mode)


def _uf_apply(f, x, lemma):
    t, k = lift(x)
    t = z3.simplify(_to_real(t, k))
    app = f(t)
    c = CUR
    if c is not None and c.mode == "sym":
        c.uf_term(f, t, app, lemma)
    return SymReal(app)


def exp2(x):
    if isinstance(x, Sym) or (CUR is not None and CUR.mode == "sym" and CUR.keep_uf and _is_num(x)):
        return _uf_apply(EXP2, x, "exp2")
    return np.exp2(x)


def log2(x):
    if isinstance(x, Sym) or (CUR is not None and CUR.mode == "sym" and CUR.keep_uf and _is_num(x)):
        if not isinstance(x, Sym) and float(x) <= 0:
            return np.log2(x)
        return _uf_apply(LOG2, x, "log2")
    return np.log2(x)


def sqrt(x):
    if isinstance(x, Sym):
        return _uf_apply(SQRT, x, "sqrt")
    return np.sqrt(x)


def phi(x):
    """Standard normal cdf."""
    if isinstance(x, Sym):
        return _uf_apply(PHI, x, "phi")
    from scipy.stats import norm

    return norm.cdf(x)


# --------------------------------------------------------------------------
# generic helpers usable in both modes (oracles are written with these)


def _b(x):
    t, k = lift(x)
    if k != "b":
        raise TypeError("boolean expected")
    return t


def And(*xs):
    xs = _flat(xs)
    if not any(isinstance(x, Sym) for x in xs):
        return all(bool(x) for x in xs)
    if any((not isinstance(x, Sym)) and not x for x in xs):
        return False
    ts = [x.t for x in xs if isinstance(x, Sym)]
    return wrap(z3.simplify(z3.And(*ts)))


def Or(*xs):
    xs = _flat(xs)
    if not any(isinstance(x, Sym) for x in xs):
        return any(bool(x) for x in xs)
    if any((not isinstance(x, Sym)) and x for x in xs):
        return True
    ts = [x.t for x in xs if isinstance(x, Sym)]
    return wrap(z3.simplify(z3.Or(*ts)))


def Not(x):
    if isinstance(x, Sym):
        return ~x
    return not x


def Implies(a, b):
    return Or(Not(a), b)


def Iff(a, b):
    if not isinstance(a, Sym) and not isinstance(b, Sym):
        return bool(a) == bool(b)
    return wrap(z3.simplify(_b(a) == _b(b)))


def _flat(xs):
    out = []
    for x in xs:
        if isinstance(x, (list, tuple)) or hasattr(x, "__next__"):
            out.extend(_flat(list(x)))
        else:
            out.append(x)
    return out


def If(c, a, b):
    if not isinstance(c, Sym):
        return a if c else b
    ta, ka = lift(a)
    tb, kb = lift(b)
    if ka == "b" and kb == "b":
        return wrap(z3.simplify(z3.If(c.t, ta, tb)))
    if ka in "ib" and kb in "ib":
        return SymInt(z3.If(c.t, _to_int(ta, ka), _to_int(tb, kb)))
    return SymReal(z3.If(c.t, _to_real(ta, ka), _to_real(tb, kb)))


def Sum(xs):
    r = 0
    for x in xs:
        r = r + x
    return r


def Count(bs):
    """Number of true booleans (symbolic or not)."""
    r = 0
    for b in bs:
        r = r + If(b, 1, 0)
    return r


def Abs(x):
    return abs(x) if not isinstance(x, Sym) else x.__abs__()


def Max2(a, b):
    return If(a >= b, a, b)


def Min2(a, b):
    return If(a <= b, a, b)


def approx(a, b, tol=1e-9):
    """Equality that is exact on proxies and tolerant on floats (replay)."""
    if isinstance(a, Sym) or isinstance(b, Sym):
        return a == b
    if isinstance(a, (int, np.integer)) and isinstance(b, (int, np.integer)):
        return int(a) == int(b)
    a = float(a)
    b = float(b)
    if a != a or b != b:
        return a != a and b != b
    return abs(a - b) <= tol * (1.0 + max(abs(a), abs(b)))


def le_approx(a, b, tol=1e-9):
    if isinstance(a, Sym) or isinstance(b, Sym):
        return a <= b
    return float(a) <= float(b) + tol * (1.0 + max(abs(float(a)), abs(float(b))))


# --------------------------------------------------------------------------
# contexts


class _Entry:
    __slots__ = ("choice", "alt", "term", "alt_model", "kind", "where")

    def __init__(self, choice, alt, term, alt_model, kind, where):
        self.choice = choice
        self.alt = alt
        self.term = term
        self.alt_model = alt_model
        self.kind = kind
        self.where = where


def _where():
    """file:line of the innermost frame inside the repository under test."""
    import sys

    f = sys._getframe(2)
    root = os.environ.get("VERIF_REPO", "/repo")
    depth = 0
    while f is not None and depth < 60:
        fn = f.f_code.co_filename
        if fn.startswith(root):
            return f"{fn[len(root) + 1:]}:{f.f_lineno}"
        f = f.f_back
        depth += 1
    return "?"


def _portfolio_unsat(smt2, tlimit_s):
    """True iff /usr/bin/z3 (4.8.12) or the cvc5 binary answers `unsat` on the query and neither
    answers `sat` or reports an error."""
    import subprocess
    import tempfile

    tlimit_s = max(5, int(tlimit_s))
    fd, path = tempfile.mkstemp(suffix=".smt2", prefix="symx-portfolio-")
    try:
        with os.fdopen(fd, "w") as fh:
            fh.write(smt2)
        procs = []
        for cmd in (["/usr/bin/z3", f"-T:{tlimit_s}", path], ["cvc5", "--lang=smt2", f"--tlimit={tlimit_s * 1000}", "--strings-exp", path]):
            try:
                procs.append(subprocess.Popen(cmd, stdout=subprocess.PIPE, stderr=subprocess.STDOUT, text=True))
            except OSError:
                pass
        answers = []
        for pr in procs:
            try:
                out, _ = pr.communicate(timeout=tlimit_s + 15)
            except subprocess.TimeoutExpired:
                pr.kill()
                out = ""
            lines = [l.strip() for l in (out or "").splitlines()]
            if any(l.startswith("(error") for l in lines):
                answers.append("error")
            else:
                answers.append(next((l for l in lines if l in ("sat", "unsat", "unknown")), "unknown"))
        return "unsat" in answers and "sat" not in answers
    finally:
        try:
            os.remove(path)
        except OSError:
            pass


class SymCtx:
    mode = "sym"

    def __init__(self, query_timeout_ms=10000, max_paths=20000, wall_s=600.0, max_depth=4000, known=None):
        self.solver = z3.Solver()
        self.query_timeout_ms = query_timeout_ms
        self.solver.set("timeout", query_timeout_ms)
        self.stack = []
        self.cache = {}
        self.max_paths = max_paths
        self.wall_s = wall_s
        self.max_depth = max_depth
        self.keep_uf = False
        self.nonce_fork = True
        self.known = known or []  # [(finding_id, label_regex, expr_source)]
        # statistics
        self.n_paths = 0
        self.n_pruned = 0
        self.n_decisions = 0
        self.n_queries = 0
        self.solver_s = 0.0
        self.n_oblig = 0
        self.n_discharged = 0
        self.n_concrete_true = 0
        self.candidates = []
        self.inconclusive = []
        self.aborted = []
        self.covers = {}
        self.paths = []
        self.samples = []
        self.t0 = time.time()
        # the per-configuration budget is counted in CPU seconds of this worker (the in-process
        # solver included), so that a loaded machine does not turn a finished exploration into an
        # unfinished one; the driver's wall-clock kill (3x + 90 s) is the backstop
        self.cpu0 = time.process_time()
        self.next_model = None
        self._empty_model = None
        self.export_every = 0  # cross-solver re-check: export every k-th discharged obligation
        self.export_max = 0
        self.exported = []
        self.record_paths = True
        self.max_recorded_paths = 60
        self.record_stride = 5

    # -- solver plumbing --------------------------------------------------
    def _check(self, *extra):
        t = time.time()
        if extra:
            self.solver.push()
            self.solver.add(*extra)
        r = self.solver.check()
        m = self.solver.model() if r == z3.sat else None
        if r == z3.unknown and not getattr(self, "_in_retry", False):
            # an incremental-mode timeout (typically under machine load): one retry in a fresh
            # solver over the same assertions with a longer budget, before calling it unknown
            self.n_retries = getattr(self, "n_retries", 0) + 1
            s2 = z3.Solver()
            s2.set("timeout", min(4 * self.query_timeout_ms, 240000))
            s2.add(self.solver.assertions())
            r2 = s2.check()
            if r2 != z3.unknown:
                r = r2
                m = s2.model() if r2 == z3.sat else None
            elif _portfolio_unsat(s2.to_smt2(), min(2 * self.query_timeout_ms, 120000) // 1000):
                # other back ends (z3 4.8.12 and the cvc5 binary, as in the cross-solver re-check):
                # only `unsat` is taken from them (no model to replay otherwise)
                self.n_portfolio = getattr(self, "n_portfolio", 0) + 1
                r = z3.unsat
        if extra:
            self.solver.pop()
        self.n_queries += 1
        dt = time.time() - t
        self.solver_s += dt
        if dt > 1.0 and os.environ.get("SYMX_SLOWLOG"):
            with open(os.environ["SYMX_SLOWLOG"], "a") as fh:
                fh.write(f"--- {dt:.2f}s {r} at {_where()} extra={[str(e)[:300] for e in extra]}\n")
                if os.environ.get("SYMX_SLOWLOG_FULL"):
                    fh.write(self.solver.sexpr() + "\n")
        return r, m

    def begin_path(self):
        try:
            from . import rt as _rt

            _rt.reset_random_states()
        except Exception:
            pass
        self.depth = 0
        self.k = 0
        self.prefix = ()
        self.inputs = {}
        self.input_meta = {}
        self.obs = []
        self.trace = []
        self.uf_apps = {}
        self.nonces = {}
        self.real_nonces = {}
        self.nonce_by_text = {}
        self.path_claims = 0
        self.path_covers = set()
        if self.next_model is not None:
            self.model = self.next_model
            self.next_model = None
        else:
            r, m = self._check()
            assert r == z3.sat
            self.model = m

    def backtrack(self):
        while self.stack and not self.stack[-1].alt:
            self.stack.pop()
            self.solver.pop()
        if not self.stack:
            return False
        e = self.stack[-1]
        self.solver.pop()
        self.solver.push()
        e.choice = not e.choice
        e.alt = False
        self.solver.add(e.term if e.choice else z3.Not(e.term))
        self.next_model = e.alt_model
        e.alt_model = None
        return True

    def _consume(self, e):
        self.depth += 1
        self.prefix = self.prefix + (e.choice,)
        if e.kind == "branch":
            self.trace.append((e.where, e.choice))

    def _push(self, choice, alt, term, alt_model, kind):
        if len(self.stack) >= self.max_depth:
            raise PathAbort("max decision depth")
        e = _Entry(choice, alt, term, alt_model, kind, _where() if kind == "branch" else "")
        self.stack.append(e)
        self.solver.push()
        self.solver.add(term if choice else z3.Not(term))
        if alt:
            self.n_decisions += 1
        self._consume(e)

    def _ensure_model(self):
        if self.model is None:
            r, m = self._check()
            if r == z3.sat:
                self.model = m
            elif r == z3.unsat:
                raise HarnessError("lemmas contradict the path condition")
            else:
                raise PathAbort("solver unknown after lemma")
        return self.model

    def _model_side(self, term):
        mv = self._ensure_model().eval(term, model_completion=True)
        if z3.is_true(mv):
            return True
        if z3.is_false(mv):
            return False
        return None

    # -- branching ---------------------------------------------------------
    def branch(self, term):
        term = z3.simplify(term)
        if z3.is_true(term):
            return True
        if z3.is_false(term):
            return False
        self.k += 1
        key = (self.prefix, self.k)
        h = term.hash()
        c = self.cache.get(key)
        if c is not None:
            if c[0] != h:
                raise HarnessError(f"non-deterministic re-execution at branch #{self.k}: {term.sexpr()[:200]}")
            if c[1] == "implied":
                return c[2]
            if self.depth < len(self.stack):
                e = self.stack[self.depth]
                self._consume(e)
                return e.choice
        if self.depth != len(self.stack):
            raise HarnessError("decision stack out of step with execution")
        if time.process_time() - self.cpu0 > self.wall_s:
            raise PathAbort("wall budget")
        side = self._model_side(term)
        if side is None:
            r, m = self._check(term)
            if r == z3.sat:
                side, self.model = True, m
            elif r == z3.unsat:
                self.cache[key] = (h, "implied", False)
                return False
            else:
                raise PathAbort("solver unknown at branch")
        other = z3.Not(term) if side else term
        r, m = self._check(other)
        if r == z3.unsat:
            self.cache[key] = (h, "implied", side)
            return side
        if r != z3.sat:
            raise PathAbort("solver unknown at branch")
        self.cache[key] = (h, "decision", None)
        self._push(side, True, term, m, "branch")
        return side

    def assume(self, cond):
        if not isinstance(cond, Sym):
            if not cond:
                raise Prune()
            return
        term = z3.simplify(cond.t)
        if z3.is_true(term):
            return
        if z3.is_false(term):
            raise Prune()
        self.k += 1
        key = (self.prefix, self.k)
        h = term.hash()
        c = self.cache.get(key)
        if c is not None:
            if c[0] != h:
                raise HarnessError("non-deterministic re-execution at assume")
            if self.depth < len(self.stack):
                self._consume(self.stack[self.depth])
                return
        if self.depth != len(self.stack):
            raise HarnessError("decision stack out of step with execution (assume)")
        side = self._model_side(term)
        if side is not True:
            r, m = self._check(term)
            if r == z3.unsat:
                raise Prune()
            if r != z3.sat:
                raise PathAbort("solver unknown at assume")
            self.model = m
        self.cache[key] = (h, "assume", None)
        self._push(True, False, term, None, "assume")

    def concretize(self, term, limit=24):
        """Case split on the value of an integer term (range(), nonces ...)."""
        term = z3.simplify(term)
        if z3.is_int_value(term):
            return term.as_long()
        for _ in range(limit):
            self.k += 1
            key = (self.prefix, self.k)
            c = self.cache.get(key)
            if c is not None:
                v = c[2]
            else:
                v = self._ensure_model().eval(term, model_completion=True).as_long()
                self.cache[key] = (0, "cval", v)
            if self.branch(term == v):
                return v
        raise PathAbort("too many values in case split")

    # -- inputs --------------------------------------------------------------
    def int(self, name, lo=None, hi=None):
        t = z3.Int(name)
        x = SymInt(t)
        self.inputs[name] = x
        self.input_meta[name] = ("int", lo, hi)
        if lo is not None:
            self.assume(x >= lo)
        if hi is not None:
            self.assume(x <= hi)
        return x

    def real(self, name, lo=None, hi=None, lo_open=False, hi_open=False):
        t = z3.Real(name)
        x = SymReal(t)
        self.inputs[name] = x
        self.input_meta[name] = ("real", lo, hi)
        if lo is not None:
            self.assume(x > lo if lo_open else x >= lo)
        if hi is not None:
            self.assume(x < hi if hi_open else x <= hi)
        return x

    def bool(self, name):
        x = SymBool(z3.Bool(name))
        self.inputs[name] = x
        self.input_meta[name] = ("bool", None, None)
        return x

    def string(self, name, language=None):
        """A symbolic string, optionally constrained to a z3 regular language."""
        from .strre import SymStr

        t = z3.String(name)
        x = SymStr(t)
        self.inputs[name] = x
        self.input_meta[name] = ("str", None, None)
        if language is not None:
            self.assume(wrap(z3.InRe(t, language)))
        return x

    def choice(self, name, options):
        """A value from a finite list, chosen by the solver (forks)."""
        options = list(options)
        i = self.int(name, 0, len(options) - 1)
        return options[self.concretize(i.t)]

    # -- UF lemmas -----------------------------------------------------------
    def uf_term(self, f, arg, app, lemma):
        key = (f.name(), arg.hash())
        apps = self.uf_apps.setdefault(f.name(), {})
        if arg.hash() in apps and apps[arg.hash()][0].eq(arg):
            return
        add = self.solver.add
        lem = []
        if lemma == "exp2":
            lem.append(app > 0)
            lem.append(LOG2(app) == arg)
            for (a2, p2) in apps.values():
                lem.append((arg < a2) == (app < p2))
                lem.append((arg == a2) == (app == p2))
            if z3.is_rational_value(arg):
                c = Fraction(arg.numerator_as_long(), arg.denominator_as_long())
                lo, hi = _enclose_exp2(c)
                lem.append(app >= realval(lo))
                lem.append(app <= realval(hi))
            else:
                # exact values at integer points keep models realistic
                for kpt in _EXP2_POINTS:
                    pv = realval(Fraction(2) ** kpt)
                    lem.append((arg < kpt) == (app < pv))
                    lem.append((arg == kpt) == (app == pv))
            # relation to log2 terms: exp2(log2(u)) = u is added on the log2 side
        elif lemma == "log2":
            lem.append(z3.Implies(arg > 0, EXP2(app) == arg))
            lem.append(z3.Implies(arg > 0, EXP2(app) > 0))
            for (a2, p2) in apps.values():
                lem.append(z3.Implies(z3.And(arg > 0, a2 > 0), (arg < a2) == (app < p2)))
                lem.append(z3.Implies(z3.And(arg > 0, a2 > 0), (arg == a2) == (app == p2)))
            lem.append(z3.Implies(arg > 0, (arg < 1) == (app < 0)))
            lem.append(z3.Implies(arg > 0, (arg == 1) == (app == 0)))
            if z3.is_rational_value(arg):
                c = Fraction(arg.numerator_as_long(), arg.denominator_as_long())
                if c > 0:
                    lo, hi = _enclose_log2(c)
                    lem.append(app >= realval(lo))
                    lem.append(app <= realval(hi))
            # cross lemmas with exp2 applications: exp2(t) < u  <=>  t < log2(u)
            for (a2, p2) in self.uf_apps.get("exp2", {}).values():
                lem.append(z3.Implies(arg > 0, (p2 < arg) == (a2 < app)))
                lem.append(z3.Implies(arg > 0, (p2 == arg) == (a2 == app)))
        elif lemma == "sqrt":
            lem.append(z3.Implies(arg >= 0, z3.And(app >= 0, app * app == arg)))
            for (a2, p2) in apps.values():
                lem.append(z3.Implies(z3.And(arg >= 0, a2 >= 0), (arg < a2) == (app < p2)))
        elif lemma == "phi":
            lem.append(app > 0)
            lem.append(app < 1)
            lem.append((arg < 0) == (app < realval(Fraction(1, 2))))
            lem.append((arg == 0) == (app == realval(Fraction(1, 2))))
            for (a2, p2) in apps.values():
                lem.append((arg < a2) == (app < p2))
                lem.append((arg == a2) == (app == p2))
                lem.append((arg == -a2) == (app == 1 - p2))
                lem.append((arg < -a2) == (app < 1 - p2))
        if lemma == "exp2":
            for (a2, p2) in self.uf_apps.get("log2", {}).values():
                lem.append(z3.Implies(a2 > 0, (app < a2) == (arg < p2)))
                lem.append(z3.Implies(a2 > 0, (app == a2) == (arg == p2)))
        apps[arg.hash()] = (arg, app)
        if lem:
            add(*lem)
            # the current model may violate a lemma: refreshed on next use
            self.model = None

    # -- integers rendered into text (nonces) ---------------------------------
    def render_int(self, x):
        t = z3.simplify(x.t)
        if z3.is_int_value(t):
            return str(t.as_long())
        # same term rendered before?
        for (t2, text) in self.nonces.values():
            if t2.eq(t):
                return text
        # fork on equality with every value rendered before, so that textual
        # equality <=> semantic equality on this path (harnesses whose code never
        # compares rendered text switch this off: distinct terms then simply get
        # distinct tokens)
        if self.nonce_fork:
            for (t2, text) in list(self.nonces.values()):
                if self.branch(t == t2):
                    return text
        n = len(self.nonces)
        text = str(700000000 + 7919 * (n + 1))
        # the rendered value must not collide with the nonce's own text when a
        # concrete number in the same file happens to be equal: the harness keeps
        # concrete integers below 600000000.
        self.nonces[n] = (t, text)
        self.nonce_by_text[text] = x
        return text

    def render_real(self, x):
        t = z3.simplify(x.t)
        if z3.is_rational_value(t):
            return repr(float(Fraction(t.numerator_as_long(), t.denominator_as_long())))
        for (t2, text) in self.real_nonces.values():
            if t2.eq(t):
                return text
        n = len(self.real_nonces)
        text = "0.7%09d" % (7919 * (n + 1))
        self.real_nonces[n] = (t, text)
        self.nonce_by_text[text] = x
        return text

    def parse_int(self, text):
        """Inverse of render_int for text produced on this path."""
        s = text.strip() if isinstance(text, str) else text
        if isinstance(s, str):
            neg = s.startswith("-")
            key = s[1:] if neg else s
            x = self.nonce_by_text.get(key)
            if x is not None:
                return -x if neg else x
        return None

    # -- claims ---------------------------------------------------------------
    def claim(self, cond, label, info=None):
        if self.depth < len(self.stack):
            return  # checked on an earlier path under a weaker path condition
        self.n_oblig += 1
        self.path_claims += 1
        if not isinstance(cond, Sym):
            if cond:
                self.n_discharged += 1
                self.n_concrete_true += 1
            else:
                self._candidate(label, self._ensure_model(), info, None)
            return
        if not isinstance(cond, SymBool):
            raise HarnessError("claim needs a boolean")
        neg = z3.Not(cond.t)
        r, m = self._check(neg)
        if r == z3.unsat:
            self.n_discharged += 1
            if self.export_every and len(self.exported) < self.export_max and self.n_discharged % self.export_every == 1:
                self.solver.push()
                self.solver.add(neg)
                try:
                    self.exported.append({"label": label, "smt2": self.solver.to_smt2()})
                finally:
                    self.solver.pop()
            if len(self.samples) < 6 and (self.n_oblig % 7 == 1):
                self.samples.append(
                    {"obligation": label, "path_trace": self.trace[-12:], "negated_claim": str(cond.t)[:300], "verdict": "unsat"}
                )
            return
        if r != z3.sat:
            self.inconclusive.append({"label": label, "why": "solver unknown on obligation", "trace": self.trace[-12:]})
            return
        # sat: a candidate counterexample.  Separate listed findings from others.
        applicable = self._known_for(label)
        if not applicable:
            self._candidate(label, m, info, None, [neg])
            return
        preds = []
        for fid, expr in applicable:
            p = self._eval_known(expr)
            preds.append((fid, p))
        not_known = [Not(p) for _, p in preds]
        nk = And(*not_known)
        if isinstance(nk, Sym) or nk:
            extra = [neg] + ([nk.t] if isinstance(nk, Sym) else [])
            r2, m2 = self._check(*extra)
            if r2 == z3.sat:
                self._candidate(label, m2, info, None, extra)
            elif r2 != z3.unsat:
                self.inconclusive.append({"label": label, "why": "solver unknown on obligation (unlisted part)"})
        for fid, p in preds:
            if isinstance(p, Sym):
                ex3 = [neg, p.t]
                r3, m3 = self._check(neg, p.t)
            elif p:
                ex3 = [neg]
                r3, m3 = r, m
            else:
                continue
            if r3 == z3.sat:
                self._candidate(label, m3, info, fid, ex3)
            elif r3 != z3.unsat:
                self.inconclusive.append({"label": label, "why": f"solver unknown on obligation (finding {fid})"})

    def _known_for(self, label):
        import re

        return [(fid, expr) for (fid, rx, expr) in self.known if re.search(rx, label)]

    def _eval_known(self, expr):
        ns = {"inp": self.inputs, "cfg": getattr(self, "config", {}), "And": And, "Or": Or, "Not": Not, "If": If, "Abs": Abs}
        return eval(expr, ns)

    def _candidate(self, label, model, info, finding, extra=()):
        if len(self.candidates) >= 40:
            return
        fm = self.float_model(model, extra)
        if fm is not None:
            model = fm
        vals = self.model_inputs(model)
        alt = self.model_inputs(model, repair=True)
        self.candidates.append(
            {"label": label, "inputs": vals, "inputs_alt": alt if alt != vals else None, "info": info, "finding_hint": finding, "trace": self.trace[-20:]}
        )

    def float_model(self, model, extra=(), generic=True):
        """A model of the path condition (and `extra`) whose real inputs are exactly
        representable as float64 and, where the path's region allows it, moved
        off the region's boundary by a small pseudo-random amount: the solver's
        own models are vertices of the region, i.e. exact rounding ties, on which
        float64 and real arithmetic may round differently (assumption A1).
        None when the solver finds no float model quickly."""
        reals = [x for x in self.inputs.values() if isinstance(x, SymReal)]
        if not reals:
            return model
        try:
            vals = []
            exact = True
            for x in reals:
                v = model.eval(x.t, model_completion=True)
                fr = Fraction(_val_to_json(v)) if not z3.is_int_value(v) else Fraction(v.as_long())
                f = float(fr)
                exact = exact and Fraction(f) == fr
                vals.append(f)
        except (_Unobservable, OverflowError, ValueError):
            return None
        self.solver.set("timeout", 1500)
        self._in_retry = True  # quick probes: unknown just means "try another value"
        try:
            def pinned(vs):
                return self._check(*extra, *[x.t == realval(v) for x, v in zip(reals, vs)])

            best = model if exact else None
            if not exact:
                r, m = pinned(vals)
                if r == z3.sat:
                    best = m
                else:
                    r, m = self._check(*extra, *[z3.IsInt(x.t * 4096) for x in reals])
                    if r != z3.sat:
                        return None
                    best = m
                    vals = [float(Fraction(_val_to_json(m.eval(x.t, model_completion=True)))) for x in reals]
            if generic and len(reals) <= 16:
                import random

                rnd = random.Random(self.n_paths * 7919 + len(self.candidates))
                for i in range(len(reals)):
                    for scale in (1e-3, -1e-3, 1e-6, -1e-6):
                        d = scale * (1.0 + abs(vals[i])) * rnd.uniform(0.3, 1.0)
                        trial = list(vals)
                        trial[i] = float(vals[i] + d)
                        r, m = pinned(trial)
                        if r == z3.sat:
                            vals, best = trial, m
                            break
            return best
        except (_Unobservable, OverflowError, ValueError):
            return None
        finally:
            self._in_retry = False
            self.solver.set("timeout", self.query_timeout_ms)

    def model_inputs(self, model, repair=False):
        """Input assignment of a model, as JSON.  With repair=True a real input that occurs as the
        argument of the uninterpreted exp2 is *repaired*: it is recomputed as
        log2 of the value the model gives to exp2(input), so that the real 2**x
        of the replay agrees with what the symbolic run assumed (DESIGN.md 2.6)."""
        vals = {}
        exp_apps = self.uf_apps.get("exp2", {})
        for name, x in self.inputs.items():
            v = model.eval(x.t, model_completion=True)
            vals[name] = _val_to_json(v)
            if repair and isinstance(x, SymReal) and exp_apps:
                ent = exp_apps.get(x.t.hash())
                if ent is not None and ent[0].eq(x.t):
                    ev = model.eval(ent[1], model_completion=True)
                    try:
                        f = Fraction(_val_to_json(ev)) if not z3.is_int_value(ev) else Fraction(ev.as_long())
                        if f > 0:
                            n, d = f.numerator, f.denominator
                            vals[name] = (n.bit_length() - d.bit_length()) + math.log2((n / (1 << n.bit_length())) / (d / (1 << d.bit_length()))) if max(n.bit_length(), d.bit_length()) > 900 else math.log2(f)
                    except (_Unobservable, ValueError, OverflowError, ZeroDivisionError):
                        pass
        return vals

    def cover(self, label, cond=True):
        if label in self.covers:
            return
        if isinstance(cond, Sym):
            r, _ = self._check(cond.t)
            if r != z3.sat:
                return
        elif not cond:
            return
        self.covers[label] = self.covers.get(label, 0) + 1

    def observe(self, name, value):
        self.obs.append((name, value))

    def end_path(self, status):
        self.n_paths += 1
        if self.record_paths and status == "ok" and len(self.paths) < self.max_recorded_paths and (self.n_paths <= 12 or self.n_paths % self.record_stride == 0):
            try:
                m = self._ensure_model()
                fm = self.float_model(m)
                if fm is None:
                    self.n_unreplayable = getattr(self, "n_unreplayable", 0) + 1
                    return
                m = fm
                try:
                    obs = [(n, _eval_obs(v, m)) for n, v in self.obs]
                except _Unobservable:
                    obs = None
                ins = self.model_inputs(m)
                alt = self.model_inputs(m, repair=True)
                self.paths.append({"inputs": ins, "inputs_alt": alt if alt != ins else None, "obs": obs, "claims": self.path_claims, "uf": any(self.uf_apps.values())})
            except (PathAbort, _Unobservable):
                pass


class _Unobservable(Exception):
    pass


def _val_to_json(v):
    if z3.is_int_value(v):
        return v.as_long()
    if z3.is_rational_value(v):
        return f"{v.numerator_as_long()}/{v.denominator_as_long()}"
    if z3.is_true(v):
        return True
    if z3.is_false(v):
        return False
    if z3.is_algebraic_value(v):
        a = v.approx(20)
        return f"{a.numerator_as_long()}/{a.denominator_as_long()}"
    if z3.is_string_value(v):
        return {"str": v.as_string()}
    raise _Unobservable(str(v))


def _has_uf(t):
    seen = set()
    todo = [t]
    while todo:
        e = todo.pop()
        i = e.get_id()
        if i in seen:
            continue
        seen.add(i)
        if z3.is_app(e):
            d = e.decl()
            if d.kind() == z3.Z3_OP_UNINTERPRETED and d.arity() > 0:
                return True
            todo.extend(e.children())
    return False


def _eval_obs(v, model):
    if isinstance(v, Sym):
        if _has_uf(v.t):
            return {"uf": True}
        return _val_to_json(model.eval(v.t, model_completion=True))
    if isinstance(v, (list, tuple)):
        return [_eval_obs(e, model) for e in v]
    if isinstance(v, np.ndarray):
        return [_eval_obs(e, model) for e in v.tolist()]
    if isinstance(v, dict):
        return {str(k): _eval_obs(e, model) for k, e in v.items()}
    if isinstance(v, (np.integer,)):
        return int(v)
    if isinstance(v, (np.floating, float)):
        f = float(v)
        if f != f:
            return "nan"
        if f in (math.inf, -math.inf):
            return "inf" if f > 0 else "-inf"
        fr = Fraction(f)
        return f"{fr.numerator}/{fr.denominator}"
    if isinstance(v, (np.bool_,)):
        return bool(v)
    if v is None or isinstance(v, (int, str, bool)):
        return v
    if hasattr(v, "tolist"):
        return _eval_obs(v.tolist(), model)
    return repr(v)


def json_to_val(v, kind):
    if kind == "real":
        if isinstance(v, str):
            return float(Fraction(v))
        return float(v)
    return v


class ConcreteCtx:
    """Replays one input assignment on plain python/numpy values."""

    mode = "concrete"
    keep_uf = False

    def __init__(self, values):
        self.values = values
        self.failed = []
        self.n_claims = 0
        self.obs = []
        self.inputs = {}
        self.covers = {}
        self.config = {}

    def int(self, name, lo=None, hi=None):
        # an input declared after the failing claim is absent from the model: any value will do
        v = int(self.values[name]) if name in self.values else (lo if lo is not None else (hi if hi is not None else 0))
        if (lo is not None and v < lo) or (hi is not None and v > hi):
            raise PreconditionFailed(name)
        self.inputs[name] = v
        return v

    def real(self, name, lo=None, hi=None, lo_open=False, hi_open=False):
        v = self.values[name] if name in self.values else ((lo + hi) / 2 if (lo is not None and hi is not None) else (lo + 1 if lo is not None else (hi - 1 if hi is not None else 0.0)))
        f = float(Fraction(v)) if isinstance(v, str) else float(v)
        if lo is not None and (f <= lo if lo_open else f < lo):
            raise PreconditionFailed(name)
        if hi is not None and (f >= hi if hi_open else f > hi):
            raise PreconditionFailed(name)
        self.inputs[name] = f
        return f

    def bool(self, name):
        v = bool(self.values.get(name, False))
        self.inputs[name] = v
        return v

    def string(self, name, language=None):
        v = self.values.get(name, "")
        if isinstance(v, dict):
            v = v.get("str", "")
        # z3 prints non-printable characters as \u{..} escapes
        import re as _re

        v = _re.sub(r"\\u\{([0-9a-fA-F]+)\}", lambda m: chr(int(m.group(1), 16)), v)
        self.inputs[name] = v
        return v

    def choice(self, name, options):
        options = list(options)
        return options[self.int(name, 0, len(options) - 1)]

    def assume(self, cond):
        if not cond:
            raise PreconditionFailed("assume")

    def claim(self, cond, label, info=None):
        self.n_claims += 1
        if isinstance(cond, np.ndarray):
            cond = bool(cond.all())
        if not cond:
            self.failed.append({"label": label, "info": _eval_obs(info, None) if info is not None else None})

    def cover(self, label, cond=True):
        if cond:
            self.covers[label] = 1

    def observe(self, name, value):
        self.obs.append((name, value))

    def concretize(self, x):
        return int(x)

    def render_int(self, x):
        return str(x)

    def parse_int(self, text):
        return None


# --------------------------------------------------------------------------
# explorer


def explore(fn, config, ctx: SymCtx):
    """Enumerate every feasible path of ``fn(ctx, **config)``."""
    global CUR
    ctx.config = config
    prev = CUR
    CUR = ctx
    exhaustive = True
    try:
        while True:
            if ctx.n_paths >= ctx.max_paths or time.process_time() - ctx.cpu0 > ctx.wall_s:
                exhaustive = False
                ctx.aborted.append({"reason": "path/wall budget exhausted"})
                break
            ctx.begin_path()
            status = "ok"
            try:
                fn(ctx, **config)
            except Prune:
                status = "pruned"
                ctx.n_pruned += 1
            except HarnessError:
                raise
            except PathAbort as e:
                status = "aborted"
                exhaustive = False
                ctx.aborted.append({"reason": f"{type(e).__name__}: {e.reason}", "trace": ctx.trace[-10:]})
            ctx.end_path(status)
            if not ctx.backtrack():
                break
    finally:
        CUR = prev
    return exhaustive


def run_concrete(fn, config, values):
    global CUR
    ctx = ConcreteCtx(values)
    ctx.config = config
    prev = CUR
    CUR = ctx
    try:
        fn(ctx, **config)
        status = "ok"
    except PreconditionFailed as e:
        status = f"precondition:{e}"
    except Prune:
        status = "precondition:prune"
    finally:
        CUR = prev
    return ctx, status
