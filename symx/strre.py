"""symx.strre -- symbolic strings for format sniffing: a z3 String proxy and a
translation of Python's compiled regular expressions (read from the real module
at run time) into z3 regular expressions.

ASCII assumption: the symbolic line ranges over printable ASCII, tab and newline;
`\\w`, `\\d`, `\\s` are their ASCII classes.
"""
from __future__ import annotations

import re
import re._parser as sre_parse  # python 3.11+
import re._constants as sre_c

import z3

from . import core
from .core import Sym, SymBool

_S = z3.StringSort()
_RS = z3.ReSort(_S)


def _lit(ch):
    return z3.Re(z3.StringVal(ch))


def _range(a, b):
    return z3.Range(z3.StringVal(a), z3.StringVal(b))


ANYCHAR = z3.Union(_range(" ", "~"), _lit("\t"), _lit("\n"))
NOT_NL = z3.Union(_range(" ", "~"), _lit("\t"))
SPACE = z3.Union(_lit(" "), _lit("\t"), _lit("\n"))
NOT_SPACE = _range("!", "~")
DIGIT = _range("0", "9")
WORD = z3.Union(_range("a", "z"), _range("A", "Z"), DIGIT, _lit("_"))
EVERYTHING = z3.Star(ANYCHAR)

_CATS = {
    sre_c.CATEGORY_DIGIT: DIGIT,
    sre_c.CATEGORY_WORD: WORD,
    sre_c.CATEGORY_SPACE: SPACE,
    sre_c.CATEGORY_NOT_SPACE: NOT_SPACE,
}


def _chars_of(items):
    """Set of characters (as a list of z3 regexes) of an IN node."""
    out = []
    for op, av in items:
        if op is sre_c.LITERAL:
            out.append(_lit(chr(av)))
        elif op is sre_c.RANGE:
            out.append(_range(chr(av[0]), chr(av[1])))
        elif op is sre_c.CATEGORY:
            out.append(_CATS[av])
        else:
            raise NotImplementedError(f"regex class item {op}")
    return out


def _tr(seq):
    parts = []
    for op, av in seq:
        if op is sre_c.LITERAL:
            parts.append(_lit(chr(av)))
        elif op is sre_c.ANY:
            parts.append(NOT_NL)
        elif op is sre_c.IN:
            if av and av[0][0] is sre_c.NEGATE:
                raise NotImplementedError("negated class")
            cs = _chars_of(av)
            parts.append(cs[0] if len(cs) == 1 else z3.Union(*cs))
        elif op in (sre_c.MAX_REPEAT, sre_c.MIN_REPEAT):
            lo, hi, sub = av
            r = _tr(sub)
            if hi is sre_c.MAXREPEAT:
                parts.append(z3.Star(r) if lo == 0 else (z3.Plus(r) if lo == 1 else z3.Concat(z3.Loop(r, lo, lo), z3.Star(r))))
            else:
                parts.append(z3.Option(r) if (lo, hi) == (0, 1) else z3.Loop(r, lo, hi))
        elif op is sre_c.SUBPATTERN:
            parts.append(_tr(av[3]))
        elif op is sre_c.BRANCH:
            alts = [_tr(a) for a in av[1]]
            parts.append(z3.Union(*alts) if len(alts) > 1 else alts[0])
        elif op is sre_c.CATEGORY:
            parts.append(_CATS[av])
        else:
            raise NotImplementedError(f"regex op {op}")
    if not parts:
        return z3.Re(z3.StringVal(""))
    return parts[0] if len(parts) == 1 else z3.Concat(*parts)


def _strip_trailing_dollar(seq):
    """True and the sequence without it when the pattern ends with `$` (possibly inside
    the last group)."""
    seq = list(seq)
    if not seq:
        return False, seq
    op, av = seq[-1]
    if op is sre_c.AT and av in (sre_c.AT_END, sre_c.AT_END_STRING):
        return True, seq[:-1]
    if op is sre_c.SUBPATTERN:
        found, inner = _strip_trailing_dollar(av[3])
        if found:
            return True, seq[:-1] + [(op, (av[0], av[1], av[2], inner))]
    return False, seq


_LANG_CACHE = {}


def match_language(pattern: "re.Pattern"):
    """z3 regex of all strings s with pattern.match(s) is not None.  Cached per pattern text:
    re-created terms get new AST ids, z3's simplifier orders union members by id, and the
    explorer's determinism guard would see a different (equivalent) branch condition."""
    key = (pattern.pattern, pattern.flags)
    if key not in _LANG_CACHE:
        _LANG_CACHE[key] = _match_language(pattern)
    return _LANG_CACHE[key]


def _match_language(pattern):
    tree = list(sre_parse.parse(pattern.pattern, pattern.flags))
    dollar, seq = _strip_trailing_dollar(tree)
    body = _tr(seq)
    if dollar:
        return z3.Concat(body, z3.Option(_lit("\n")))
    return z3.Concat(body, EVERYTHING)


class SymStr(Sym):
    """A symbolic line of text."""

    __slots__ = ()
    kind = "s"

    def __bool__(self):
        return core.CUR.branch(z3.Length(self.t) > 0)

    def strip(self):
        return _Stripped(self)

    def startswith(self, prefix):
        ps = prefix if isinstance(prefix, tuple) else (prefix,)
        t = z3.Or(*[z3.PrefixOf(z3.StringVal(p), self.t) for p in ps])
        return core.wrap(z3.simplify(t))

    def __eq__(self, other):
        if isinstance(other, str):
            return core.wrap(z3.simplify(self.t == z3.StringVal(other)))
        return NotImplemented

    __hash__ = Sym.__hash__

    def __str__(self):
        return "<symbolic line>"  # only ever formatted into an error message

    __repr__ = __str__


class _Stripped:
    """line.strip(): only its truth value is used by the sniffer."""

    def __init__(self, s):
        self.s = s

    def __bool__(self):
        return core.CUR.branch(z3.Not(z3.InRe(self.s.t, z3.Star(SPACE))))


class SymPattern:
    """Stands in for a compiled pattern: .match() on a symbolic line is a solver-decided branch."""

    def __init__(self, pattern):
        self.pattern = pattern
        self.lang = match_language(pattern)

    def match(self, line):
        if isinstance(line, SymStr):
            return True if core.CUR.branch(z3.InRe(line.t, self.lang)) else None
        return self.pattern.match(line)

    def __getattr__(self, name):
        return getattr(self.pattern, name)


def agrees_on(pattern, lines):
    """Differential validation of the translation on concrete lines."""
    lang = match_language(pattern)
    bad = []
    for ln in lines:
        if any(not (32 <= ord(c) <= 126 or c in "\t\n") for c in ln):
            continue
        s = z3.Solver()
        s.add(z3.InRe(z3.StringVal(ln), lang))
        got = s.check() == z3.sat
        want = pattern.match(ln) is not None
        if got != want:
            bad.append((ln, want, got))
    return bad
