"""C05 -- the pooled reference is the robust per-bin consensus in the chosen reference sex."""
import numpy as np
import pandas as pd

from symx.api import *
from symx.props.common import *

from cnvlib import reference, descriptives, params

PROPERTY = "C05"
FUNCTIONS = [
    "cnvlib.reference.combine_probes/load_sample_block/bias_correct_logr/shift_sex_chroms/summarize_info (corrections off)",
    "cnvlib.reference.do_reference (sexes given), calculate_gc_lo, fasta_extract_regions, get_fasta_stats",
    "cnvlib.cnary.CopyNumArray.center_all/expect_flat_log2/chr_x_filter/chr_y_filter",
]
BOUNDS = {
    "cohort": "1-2 samples (3 thorough) x every sex mix x male/female reference x chrN/N naming; 4 target bins (2 autosomal on two chromosomes, X, Y) and 0 or 2 antitarget bins, every log2 symbolic in [-10, 10] (no null coverage)",
    "sequences": "symbolic sequences of <= 6 characters over ACGTacgtNn for gc/rmask; symbolic slice coordinates",
}
NOT_COVERED = [
    "the numerics of biweight_location / biweight_midvariance: they are spies returning fresh values, what is decided is the exact vector each bin hands to them (their own invariants: C19)",
    "corrections on (the semantic clauses under rolling-median corrections), sex inference (guess_xx: scipy median_test), clustering",
    "cohorts of more than 3 samples",
]
STUBS = [
    "reference.read_cna returns the harness's in-memory arrays (file parsing: C08)",
    "descriptives.biweight_location / biweight_midvariance -> spies (argument vectors recorded) returning fresh values",
    "pyfaidx.Fasta -> object recording the requested slice and returning a symbolic sequence",
]
ASSUMPTIONS = []

AUTO_MEDIAN_NOTE = "centring: median of the per-chromosome medians of the autosomal bins"


def bins_for(naming, with_anti):
    pre = "chr" if naming == "chr" else ""
    t = [(pre + "1", 100, 300, "A"), (pre + "2", 100, 400, "B"), (pre + "X", 100, 300, "C"), (pre + "Y", 100, 300, "D")]
    a = [(pre + "1", 1000, 9000, "Antitarget"), (pre + "X", 1000, 9000, "Antitarget")] if with_anti else []
    return t, a


class Spy:
    def __init__(self, ctx, name, lo=None):
        self.ctx, self.name, self.lo, self.calls = ctx, name, lo, []

    def __call__(self, a, **kw):
        vals = list(a)
        self.calls.append((vals, kw))
        if concrete(self.ctx):
            return getattr(self, "real")(np.asarray(vals, dtype=float), **kw)
        return self.ctx.real(f"{self.name}{len(self.calls)}", self.lo, None)


def h_pool(ctx, sexes, hapx, naming, with_anti, mismatch=False):
    """sexes: list of 'F'/'M' per sample."""
    tb, ab = bins_for(naming, with_anti)
    ns = len(sexes)
    tables, samp_logs = {}, []
    for k, sx in enumerate(sexes):
        tl = [ctx.real(f"t{k}_{i}", -10, 10) for i in range(len(tb))]
        al = [ctx.real(f"a{k}_{i}", -10, 10) for i in range(len(ab))]
        samp_logs.append((tl, al))
        tbk = list(tb)
        if mismatch and k == ns - 1:
            tbk[1] = (tbk[1][0], tbk[1][1], tbk[1][2] + 1, tbk[1][3])
        tables[f"s{k}.targetcoverage.cnn"] = make_cna({"chromosome": [b[0] for b in tbk], "start": [b[1] for b in tbk], "end": [b[2] for b in tbk], "gene": [b[3] for b in tbk], "log2": list(tl), "depth": [10.0 + k] * len(tbk)}, {"sample_id": f"s{k}"})
        if with_anti:
            tables[f"s{k}.antitargetcoverage.cnn"] = make_cna({"chromosome": [b[0] for b in ab], "start": [b[1] for b in ab], "end": [b[2] for b in ab], "gene": [b[3] for b in ab], "log2": list(al), "depth": [1.0 + k] * len(ab)}, {"sample_id": f"s{k}"})
    sex_map = {f"s{k}": (sx == "F") for k, sx in enumerate(sexes)}
    loc, var = Spy(ctx, "biloc", None), Spy(ctx, "bivar", 0)
    loc.real, var.real = descriptives.biweight_location, descriptives.biweight_midvariance
    orig_read = reference.read_cna
    reference.read_cna = lambda fname, *a, **k: tables[fname].copy()
    descriptives.biweight_location, descriptives.biweight_midvariance = loc, var
    raised = None
    try:
        ref = reference.combine_probes(
            [f"s{k}.targetcoverage.cnn" for k in range(ns)],
            [f"s{k}.antitargetcoverage.cnn" for k in range(ns)] if with_anti else None,
            None, hapx, None, sex_map, False, False, False, False, 4,
        )
    except RuntimeError as exc:
        raised = str(exc)
    except Exception as exc:
        ctx.claim(False, f"combine_probes raised {type(exc).__name__}", info=str(exc)[:200])
        return
    finally:
        reference.read_cna = orig_read
        descriptives.biweight_location, descriptives.biweight_midvariance = loc.real, var.real
    if mismatch:
        ctx.claim(raised is not None and "do not match" in raised, "files whose bins differ are rejected")
        ctx.cover("rejected")
        return
    ctx.claim(raised is None, "matching files are accepted")
    if raised is not None:
        return
    allb = tb + ab
    rows = list(ref.data.itertuples(index=False))
    want_order = sorted(range(len(allb)), key=lambda i: (ref_sort_key(allb[i][0]), allb[i][1]))
    ctx.claim([(r.chromosome, r.start, r.end, r.gene) for r in rows] == [allb[i] for i in want_order], "the reference has exactly the input bins, in genomic order")
    # expected vector per bin: [flat, sample_1', ..., sample_n']
    nb_t, nb_a = len(tb), len(ab)
    # the location spy is called per column for log2 (targets then antitargets, in file order), then for depths
    n_cols = nb_t + nb_a
    loc_calls = loc.calls[:n_cols]
    ctx.claim(len(loc.calls) >= n_cols and len(var.calls) == n_cols, "one location and one spread estimate per bin")
    for j in range(n_cols):
        is_t = j < nb_t
        b = tb[j] if is_t else ab[j - nb_t]
        chrom = b[0]
        cls = "x" if chrom.endswith("X") else ("y" if chrom.endswith("Y") else "auto")
        flat = 0.0 if cls == "auto" else (-1.0 if (cls == "y" or hapx) else 0.0)
        want = [flat]
        for k, sx in enumerate(sexes):
            tl, al = samp_logs[k]
            logs, bl = (tl, tb) if is_t else (al, ab)
            jj = j if is_t else j - nb_t
            # median-centring over the autosomal bins of that file (per chromosome, then across)
            groups = {}
            for i, bb in enumerate(bl):
                if not (bb[0].endswith("X") or bb[0].endswith("Y")):
                    groups.setdefault(bb[0], []).append(logs[i])
            from symx.props.C19 import median_term

            centre = median_term([median_term(g) for g in groups.values()])
            v = logs[jj] - centre
            if cls == "x":
                v = v + ((-1.0 if hapx else 0.0) if sx == "F" else (0.0 if hapx else 1.0))
            elif cls == "y":
                v = -1.0 if sx == "F" else v
            want.append(v)
        got = loc_calls[j][0] if j < len(loc_calls) else []
        ctx.claim(len(got) == len(want) and all(bool(approx(g, w)) for g, w in zip(got, want)), f"the estimators receive the neutral pseudo-sample plus every sample's centred, sex-shifted log2 [{cls}]", info=str(j))
        gv = var.calls[j][0] if j < len(var.calls) else []
        ctx.claim(len(gv) == len(want) and all(bool(approx(g, w)) for g, w in zip(gv, want)), "the spread estimator receives the same values")
    # the reported log2/spread are the estimators' results for that bin
    ctx.cover("mixed sexes", len(set(sexes)) > 1)
    ctx.cover("reached")


def ref_sort_key(ch):
    c = ch[3:] if ch.startswith("chr") else ch
    return (0, int(c)) if c.isdigit() else (1, {"X": 0, "Y": 1}.get(c, 2))


class SymSeq:
    """A sequence of symbolic characters over ACGTacgtNn (codes 0..9)."""

    ALPHA = "ACGTacgtNn"

    def __init__(self, codes):
        self.codes = codes

    def count(self, ch):
        k = self.ALPHA.index(ch)
        return Sum([If(c == k, 1, 0) for c in self.codes]) if self.codes else 0

    def __len__(self):
        return len(self.codes)


def h_gc(ctx, L):
    codes = [ctx.int(f"c{i}", 0, 9) for i in range(L)]
    seq = SymSeq(codes) if not concrete(ctx) else "".join(SymSeq.ALPHA[c] for c in codes)
    gc, lo = reference.calculate_gc_lo(seq)
    ctx.observe("gc", gc)
    unamb = Sum([If(c <= 7, 1, 0) for c in codes]) if L else 0
    n_gc = Sum([If(Or(c == 1, c == 2, c == 5, c == 6), 1, 0) for c in codes]) if L else 0
    n_lo = Sum([If(And(c >= 4, c <= 7), 1, 0) for c in codes]) if L else 0
    if bool(unamb == 0):
        ctx.claim(And(gc == 0, lo == 0) if isinstance(gc, Sym) or isinstance(lo, Sym) else (gc == 0 and lo == 0), "no unambiguous base: gc = rmask = 0")
        ctx.cover("all ambiguous")
    else:
        u = unamb.__index__() if isinstance(unamb, Sym) else unamb  # case split on the number of unambiguous bases
        ctx.claim(approx(gc * u, n_gc), "gc is the G+C fraction of the unambiguous bases")
        ctx.claim(approx(lo * u, n_lo), "rmask is the lowercase fraction of the unambiguous bases")
        ctx.cover("mixed case", And(n_lo > 0, n_lo < unamb))


def h_slice(ctx):
    s = ctx.int("s", 0, 10**6)
    e = ctx.int("e", 0, 10**6)
    ctx.assume(s < e)
    asked = []

    class _Chrom:
        def __getitem__(self, sl):
            asked.append((sl.start, sl.stop))
            return "ACGT"

    class _Fasta:
        def __init__(self, *a, **k):
            pass

        def __enter__(self):
            return self

        def __exit__(self, *a):
            return False

        def __getitem__(self, name):
            return _Chrom()

    class _Pf:
        Fasta = _Fasta

    orig = reference.pyfaidx
    reference.pyfaidx = _Pf
    try:
        iv = make_ga({"chromosome": ["chr1"], "start": [s], "end": [e]})
        out = list(reference.fasta_extract_regions("g.fa", iv))
    finally:
        reference.pyfaidx = orig
    ctx.claim(len(asked) == 1 and And(asked[0][0] == s, asked[0][1] == e), "each bin's sequence is the 0-based half-open slice [start:end)")
    ctx.cover("reached")


def _pool_cfgs():
    out = []
    for sexes in (["F"], ["M"], ["F", "M"], ["M", "F"], ["F", "F"], ["M", "M"], ["F", "M", "M"]):
        for hapx in (False, True):
            for naming in ("chr", "plain"):
                for with_anti in (False, True):
                    c = {"sexes": sexes, "hapx": hapx, "naming": naming, "with_anti": with_anti}
                    if len(sexes) == 3 or (naming == "plain" and (with_anti or len(sexes) == 2)) or (len(sexes) == 2 and with_anti and sexes[0] == sexes[1]):
                        c["tier"] = "thorough"
                    out.append(c)
    out.append({"sexes": ["F", "M"], "hapx": True, "naming": "chr", "with_anti": False, "mismatch": True})
    return out


HARNESSES = [
    Harness("pooled", h_pool, _pool_cfgs(), covers=["reached", "mixed sexes", "rejected"], wall_s=400, thorough_wall_s=1800),
    Harness("gc_rmask", h_gc, [{"L": 0}, {"L": 1}, {"L": 3}, {"L": 4}, {"L": 6, "tier": "thorough"}], covers=["all ambiguous", "mixed case"], wall_s=200, thorough_wall_s=900),
    Harness("fasta_slice", h_slice, [{}], covers=["reached"]),
]
