"""C05 -- the pooled reference is the robust per-bin consensus in the chosen reference sex."""
import numpy as np
import pandas as pd

from symx.api import *
from symx.props.common import *

from cnvlib import reference, descriptives, params

PROPERTY = "C05"
FUNCTIONS = [
    "cnvlib.reference.combine_probes/load_sample_block/bias_correct_logr/shift_sex_chroms/summarize_info (corrections off)",
    "cnvlib.reference.do_reference/infer_sexes (sexes given; inferred: guess_xx's answer is solver-chosen), summarize_info with the real descriptives.biweight_location/biweight_midvariance (structured family), calculate_gc_lo, fasta_extract_regions, get_fasta_stats",
    "cnvlib.cnary.CopyNumArray.center_all/expect_flat_log2/chr_x_filter/chr_y_filter",
]
BOUNDS = {
    "cohort": "1-2 samples (3 thorough) x every sex mix x male/female reference x chrN/N naming; 4 target bins (2 autosomal on two chromosomes, X, Y) and 0 or 2 antitarget bins, every log2 symbolic in [-10, 10] (no null coverage; one configuration with antitarget log2 down to -25: null-coverage antitarget bins); inferred sexes: 2 samples x {female, male, no call} per file; consensus: 2-3 samples, one outlier with |log2| in [1, 10]",
    "sequences": "symbolic sequences of <= 4 characters (5 thorough; at 6 the counting claims went `unknown` in two of three thorough runs) over ACGTacgtNn for gc/rmask; symbolic slice coordinates",
}
NOT_COVERED = [
    "the numerics of biweight_location / biweight_midvariance: they are spies returning fresh values, what is decided is the exact vector each bin hands to them (their own invariants: C19)",
    "corrections on (the semantic clauses under rolling-median corrections), the sex inference itself (guess_xx: scipy median_test; its answer is solver-chosen), clustering",
    "cohorts of more than 3 samples",
    "the depth-only 'consequently' clause for a cohort of ONE sample: the estimators of {pseudo-sample 0, v} give v/2 with spread 0.74|v| -- the defining clause (biweight over the samples plus the pseudo-sample) holds and is what the code does, the derived clause does not follow from it for n = 1 and is claimed for n >= 2 (consensus_outlier, family depth_only)",
]
STUBS = [
    "reference.read_cna returns the harness's in-memory arrays (file parsing: C08)",
    "descriptives.biweight_location / biweight_midvariance -> spies (argument vectors recorded) returning fresh values (pooled harness; consensus_outlier runs the real ones)",
    "CopyNumArray.guess_xx -> solver-chosen answer in {female, male, no call} per file; combine_probes -> recorder (inferred_sexes harness only)",
    "pyfaidx.Fasta -> object recording the requested slice and returning a symbolic sequence",
]
ASSUMPTIONS = []

AUTO_MEDIAN_NOTE = "centring: median of the per-chromosome medians of the autosomal bins"


def bins_for(naming, with_anti, no_x=False):
    pre = "chr" if naming == "chr" else ""
    t = [(pre + "1", 100, 300, "A"), (pre + "2", 100, 400, "B"), (pre + "X", 100, 300, "C"), (pre + "Y", 100, 300, "D")]
    if no_x:
        # a panel with chrY bins but no chrX bin (the naming style shows in the first row)
        t = [t[0], t[1], t[3]]
    a = [(pre + "1", 1000, 9000, "Antitarget"), (pre + "X", 1000, 9000, "Antitarget")] if with_anti else []
    return t, a


class Spy:
    def __init__(self, ctx, name, lo=None):
        self.ctx, self.name, self.lo, self.calls = ctx, name, lo, []

    def __call__(self, a, **kw):
        vals = list(a)
        self.calls.append((vals, kw))
        if concrete(self.ctx):
            return getattr(self, "real")(np.asarray(vals, dtype=float), **kw)
        return self.ctx.real(f"{self.name}{len(self.calls)}", self.lo, None)


def h_pool(ctx, sexes, hapx, naming, with_anti, mismatch=False, anti_lo=-10, reverse_targets=False, no_x=False):
    """sexes: list of 'F'/'M' per sample.  anti_lo: lower end of the antitarget log2 range (below
    -15 a bin counts as null coverage: antitarget files are centred over all their autosomal bins,
    zero-coverage ones included -- 'each sample's log2 after median-centring')."""
    tb, ab = bins_for(naming, with_anti, no_x)
    ns = len(sexes)
    tables, samp_logs = {}, []
    for k, sx in enumerate(sexes):
        tl = [ctx.real(f"t{k}_{i}", -10, 10) for i in range(len(tb))]
        al = [ctx.real(f"a{k}_{i}", anti_lo, 10) for i in range(len(ab))]
        samp_logs.append((tl, al))
        tbk = list(tb)
        if mismatch and k == ns - 1:
            tbk[1] = (tbk[1][0], tbk[1][1], tbk[1][2] + 1, tbk[1][3])
        tables[f"s{k}.targetcoverage.cnn"] = make_cna({"chromosome": [b[0] for b in tbk], "start": [b[1] for b in tbk], "end": [b[2] for b in tbk], "gene": [b[3] for b in tbk], "log2": list(tl), "depth": [10.0 + k] * len(tbk)}, {"sample_id": f"s{k}"})
        if with_anti:
            tables[f"s{k}.antitargetcoverage.cnn"] = make_cna({"chromosome": [b[0] for b in ab], "start": [b[1] for b in ab], "end": [b[2] for b in ab], "gene": [b[3] for b in ab], "log2": list(al), "depth": [1.0 + k] * len(ab)}, {"sample_id": f"s{k}"})
    sex_map = {f"s{k}": (sx == "F") for k, sx in enumerate(sexes)}
    loc, var = Spy(ctx, "biloc", None), Spy(ctx, "bivar", 0)
    loc.real, var.real = descriptives.biweight_location, descriptives.biweight_midvariance
    orig_read = reference.read_cna
    reference.read_cna = lambda fname, *a, **k: tables[fname].copy()
    descriptives.biweight_location, descriptives.biweight_midvariance = loc, var
    raised = None
    try:
        ref = reference.combine_probes(
            [f"s{k}.targetcoverage.cnn" for k in (reversed(range(ns)) if reverse_targets else range(ns))],
            [f"s{k}.antitargetcoverage.cnn" for k in range(ns)] if with_anti else None,
            None, hapx, None, sex_map, False, False, False, False, 4,
        )
    except RuntimeError as exc:
        raised = str(exc)
    except Exception as exc:
        claim_raised(ctx, "combine_probes", exc)
        return
    finally:
        reference.read_cna = orig_read
        descriptives.biweight_location, descriptives.biweight_midvariance = loc.real, var.real
    if mismatch:
        ctx.claim(raised is not None and "do not match" in raised, "files whose bins differ are rejected")
        ctx.cover("rejected")
        return
    ctx.claim(raised is None, "matching files are accepted")
    if raised is not None:
        return
    allb = tb + ab
    rows = list(ref.data.itertuples(index=False))
    want_order = sorted(range(len(allb)), key=lambda i: (ref_sort_key(allb[i][0]), allb[i][1]))
    ctx.claim([(r.chromosome, r.start, r.end, r.gene) for r in rows] == [allb[i] for i in want_order], "the reference has exactly the input bins, in genomic order")
    # expected vector per bin: [flat, sample_1', ..., sample_n']
    nb_t, nb_a = len(tb), len(ab)
    # the location spy is called per column for log2 (targets then antitargets, in file order), then for depths
    n_cols = nb_t + nb_a
    loc_calls = loc.calls[:n_cols]
    ctx.claim(len(loc.calls) >= n_cols and len(var.calls) == n_cols, "one location and one spread estimate per bin")
    for j in range(n_cols):
        is_t = j < nb_t
        b = tb[j] if is_t else ab[j - nb_t]
        chrom = b[0]
        cls = "x" if chrom.endswith("X") else ("y" if chrom.endswith("Y") else "auto")
        flat = 0.0 if cls == "auto" else (-1.0 if (cls == "y" or hapx) else 0.0)
        want = [flat]
        for k, sx in enumerate(sexes):
            tl, al = samp_logs[k]
            logs, bl = (tl, tb) if is_t else (al, ab)
            jj = j if is_t else j - nb_t
            # median-centring over the autosomal bins of that file (per chromosome, then across)
            groups = {}
            for i, bb in enumerate(bl):
                if not (bb[0].endswith("X") or bb[0].endswith("Y")):
                    groups.setdefault(bb[0], []).append(logs[i])
            from symx.props.C19 import median_term

            centre = median_term([median_term(g) for g in groups.values()])
            v = logs[jj] - centre
            if cls == "x":
                v = v + ((-1.0 if hapx else 0.0) if sx == "F" else (0.0 if hapx else 1.0))
            elif cls == "y":
                v = -1.0 if sx == "F" else v
            want.append(v)
        got = loc_calls[j][0] if j < len(loc_calls) else []
        ctx.claim(len(got) == len(want) and all(bool(approx(g, w)) for g, w in zip(got, want)), f"the estimators receive the neutral pseudo-sample plus every sample's centred, sex-shifted log2 [{cls}]", info=str(j))
        gv = var.calls[j][0] if j < len(var.calls) else []
        ctx.claim(len(gv) == len(want) and all(bool(approx(g, w)) for g, w in zip(gv, want)), "the spread estimator receives the same values")
    # the reported log2/spread are the estimators' results for that bin
    ctx.cover("mixed sexes", len(set(sexes)) > 1)
    if anti_lo < -15:
        ctx.cover("null-coverage antitarget bin", Or(*[a < params.NULL_LOG2_COVERAGE - params.MIN_REF_COVERAGE for _, al in samp_logs for a in al]))
    ctx.cover("reached")


def h_infer(ctx, with_anti, empty_anti=False, stated=None):
    """do_reference with the sexes left to be inferred.  The inference itself (guess_xx: scipy's
    median test) is replaced by a solver-chosen answer per file -- female, male, or no call --
    what is decided is the bookkeeping around it: every non-empty file is asked once, and each
    sample is handed to combine_probes with the antitarget call where there is one, else the
    target call, else none (reference.py: 'infer from [targets] first, then replace those values
    where antitargets are suitable')."""
    from cnvlib.cnary import CopyNumArray as CNA

    ns = 2
    tb, ab = bins_for("chr", True)
    tables = {}
    for k in range(ns):
        tables[f"s{k}.targetcoverage.cnn"] = make_cna({"chromosome": [b[0] for b in tb], "start": [b[1] for b in tb], "end": [b[2] for b in tb], "gene": [b[3] for b in tb], "log2": [0.0] * len(tb), "depth": [10.0] * len(tb)}, {"sample_id": f"s{k}"})
        abk = [] if (empty_anti and k == 0) else ab
        tables[f"s{k}.antitargetcoverage.cnn"] = make_cna({"chromosome": [b[0] for b in abk], "start": [b[1] for b in abk], "end": [b[2] for b in abk], "gene": [b[3] for b in abk], "log2": [0.0] * len(abk), "depth": [1.0] * len(abk)}, {"sample_id": f"s{k}"})
    answers, asked = {}, []
    OPTS = [None, True, False]

    def spy(self, is_haploid_x_reference=False, diploid_parx_genome=None, verbose=True):
        key = (self.sample_id, "anti" if len(self) and self.data["gene"].iat[0] == "Antitarget" else "tgt")
        asked.append(key)
        if key not in answers:
            answers[key] = OPTS[ctx.choice(f"guess_{key[0]}_{key[1]}", [0, 1, 2])]
        return answers[key]

    got = {}

    def fake_combine(filenames, antitarget_fnames, fa_fname, is_haploid_x, diploid_parx_genome, sexes, *a, **k):
        got["sexes"] = dict(sexes)
        got["anti"] = antitarget_fnames
        return make_cna({"chromosome": ["chr1"], "start": [1], "end": [2], "gene": ["g"], "log2": [0.0], "depth": [1.0], "spread": [0.1]}, {"sample_id": "ref"})

    real_guess, real_read, real_combine, real_warn = CNA.guess_xx, reference.read_cna, reference.combine_probes, reference.warn_bad_bins
    CNA.guess_xx = spy
    reference.read_cna = lambda fname, *a, **k: tables[fname].copy()
    reference.combine_probes = fake_combine
    reference.warn_bad_bins = lambda *a, **k: None
    try:
        reference.do_reference([f"s{k}.targetcoverage.cnn" for k in range(ns)], [f"s{k}.antitargetcoverage.cnn" for k in range(ns)] if with_anti else None, None, False, None, stated, False, False, False)
    except Exception as exc:
        claim_raised(ctx, "do_reference", exc)
        return
    finally:
        CNA.guess_xx, reference.read_cna, reference.combine_probes, reference.warn_bad_bins = real_guess, real_read, real_combine, real_warn
    if stated is not None:
        # the sex of the samples was given: nothing is inferred, every sample gets the stated sex
        ctx.claim(asked == [], "a stated sample sex is not second-guessed (no inference)")
        ctx.claim(got.get("sexes") == {f"s{k}": stated for k in range(ns)}, "every sample is handed on with the stated sex")
        ctx.cover("reached")
        return
    files = [(f"s{k}", "tgt") for k in range(ns)] + ([(f"s{k}", "anti") for k in range(ns) if not (empty_anti and k == 0)] if with_anti else [])
    ctx.claim(sorted(asked) == sorted(files), "every non-empty coverage file is asked for its sex exactly once")
    want = {}
    for k in range(ns):
        sid = f"s{k}"
        a = answers.get((sid, "anti")) if with_anti else None
        t = answers.get((sid, "tgt"))
        v = a if a is not None else t
        if v is not None:
            want[sid] = v
    ctx.observe("sexes", {k: bool(v) for k, v in sorted(got.get("sexes", {}).items())})
    ctx.claim({k: v for k, v in got.get("sexes", {}).items() if v is not None} == want, "each sample's sex is the antitarget call where there is one, else the target call, else none")
    ctx.cover("antitarget call only", any(answers.get((f"s{k}", "tgt")) is None and answers.get((f"s{k}", "anti")) is not None for k in range(ns)))
    ctx.cover("calls disagree", any(answers.get((f"s{k}", "tgt")) is not None and answers.get((f"s{k}", "anti")) is not None and answers.get((f"s{k}", "tgt")) != answers.get((f"s{k}", "anti")) for k in range(ns)))
    ctx.cover("reached")


def h_depth_only_corrected(ctx, n_samples):
    """Corrections on (edge correction: needs no FASTA): normals that differ only in sequencing depth
    hand the estimators the same value in every bin -- whatever the rolling-median correction does,
    it does the same to each of them (equal-sized isolated targets: tied edge covariate, so the
    order among ties, i.e. the shuffle, matters)."""
    tb = [("chr1", 1000, 1200, "A"), ("chr1", 5000, 5200, "B"), ("chr1", 9000, 9200, "C"), ("chr2", 1000, 1200, "D")]
    base = [ctx.real(f"t{i}", -3, 3) for i in range(len(tb))]
    shifts = [0] + [ctx.real(f"c{k}", -2, 2) for k in range(1, n_samples)]
    tables = {}
    for k in range(n_samples):
        tables[f"s{k}.targetcoverage.cnn"] = make_cna({"chromosome": [b[0] for b in tb], "start": [b[1] for b in tb], "end": [b[2] for b in tb], "gene": [b[3] for b in tb], "log2": [x + shifts[k] for x in base], "depth": [10.0 + k] * len(tb)}, {"sample_id": f"s{k}"})
    loc, var = Spy(ctx, "biloc", None), Spy(ctx, "bivar", 0)
    loc.real, var.real = descriptives.biweight_location, descriptives.biweight_midvariance
    orig_read = reference.read_cna
    reference.read_cna = lambda fname, *a, **k: tables[fname].copy()
    descriptives.biweight_location, descriptives.biweight_midvariance = loc, var
    try:
        reference.combine_probes([f"s{k}.targetcoverage.cnn" for k in range(n_samples)], None, None, False, None, {f"s{k}": True for k in range(n_samples)}, False, True, False, False, 4)
    except Exception as exc:
        claim_raised(ctx, "combine_probes", exc)
        return
    finally:
        reference.read_cna = orig_read
        descriptives.biweight_location, descriptives.biweight_midvariance = loc.real, var.real
    ctx.claim(len(loc.calls) >= len(tb), "one location estimate per bin")
    for j in range(min(len(tb), len(loc.calls))):
        vals = loc.calls[j][0]
        ctx.claim(len(vals) == n_samples + 1, "the estimators receive the pseudo-sample plus every sample")
        for k in range(2, len(vals)):
            ctx.claim(approx(vals[k], vals[1]), "normals that differ only in depth contribute the same value to every bin, corrections on")
    ctx.cover("reached")


def h_consensus(ctx, n, side, family="outlier"):
    """summarize_info with the real estimators on structured families where the degree stays low
    enough for the solver (as in C19).  'outlier': in a bin where every sample agrees with the
    neutral pseudo-sample except one that lies far away, Tukey's biweight discards the outlier --
    log2 is the common value and spread 0, on either side.  'depth_only': n - 1 >= 2 normals that
    agree after centring (they differ only in depth) at a level v away from the pseudo-sample's 0
    reproduce v with spread 0 (for a single normal the estimators of {0, v} give v/2: the
    'consequently' clause of the statement does not follow from its defining clause there, and is
    not claimed)."""
    y = ctx.real("y", -10, 10)
    if family == "outlier":
        ctx.assume(y <= -1 if side == "low" else y >= 1)
        pos = ctx.choice("row", list(range(1, n)))
        col0 = [0.0] * n
        col0[pos] = y
        want = 0.0
    else:
        ctx.assume(y <= -0.05 if side == "low" else y >= 0.05)
        col0 = [0.0] + [y] * (n - 1)
        want = y
    logr = np.empty((n, 2), dtype=object)
    for i in range(n):
        logr[i, 0] = col0[i]
        logr[i, 1] = 0.0
    depths = np.ones((n, 2), dtype=float)
    out = reference.summarize_info(logr, depths)
    l2, sp = out["log2"][0], out["spread"][0]
    ctx.observe("log2", l2)
    if family == "outlier":
        ctx.claim(approx(l2, want), "the consensus log2 discards a far outlier (Tukey's biweight location)")
        ctx.claim(approx(sp, 0), "the spread discards a far outlier, low or high (Tukey's biweight midvariance)")
    else:
        ctx.claim(approx(l2, want), "normals that agree after centring reproduce their common level")
        ctx.claim(approx(sp, 0), "normals that agree after centring have spread 0")
    ctx.cover("reached")


def ref_sort_key(ch):
    c = ch[3:] if ch.startswith("chr") else ch
    return (0, int(c)) if c.isdigit() else (1, {"X": 0, "Y": 1}.get(c, 2))


class SymSeq:
    """A sequence of symbolic characters over ACGTacgtNn (codes 0..9)."""

    ALPHA = "ACGTacgtNn"

    def __init__(self, codes):
        self.codes = codes

    def count(self, ch):
        k = self.ALPHA.index(ch)
        return Sum([If(c == k, 1, 0) for c in self.codes]) if self.codes else 0

    def __len__(self):
        return len(self.codes)


def h_gc(ctx, L):
    codes = [ctx.int(f"c{i}", 0, 9) for i in range(L)]
    seq = SymSeq(codes) if not concrete(ctx) else "".join(SymSeq.ALPHA[c] for c in codes)
    gc, lo = reference.calculate_gc_lo(seq)
    ctx.observe("gc", gc)
    unamb = Sum([If(c <= 7, 1, 0) for c in codes]) if L else 0
    n_gc = Sum([If(Or(c == 1, c == 2, c == 5, c == 6), 1, 0) for c in codes]) if L else 0
    n_lo = Sum([If(And(c >= 4, c <= 7), 1, 0) for c in codes]) if L else 0
    if bool(unamb == 0):
        ctx.claim(And(gc == 0, lo == 0) if isinstance(gc, Sym) or isinstance(lo, Sym) else (gc == 0 and lo == 0), "no unambiguous base: gc = rmask = 0")
        ctx.cover("all ambiguous")
    else:
        u = unamb.__index__() if isinstance(unamb, Sym) else unamb  # case split on the number of unambiguous bases
        ctx.claim(approx(gc * u, n_gc), "gc is the G+C fraction of the unambiguous bases")
        ctx.claim(approx(lo * u, n_lo), "rmask is the lowercase fraction of the unambiguous bases")
        ctx.cover("mixed case", And(n_lo > 0, n_lo < unamb))


def h_slice(ctx):
    s = ctx.int("s", 0, 10**6)
    e = ctx.int("e", 0, 10**6)
    ctx.assume(s < e)
    asked = []

    class _Chrom:
        def __getitem__(self, sl):
            asked.append((sl.start, sl.stop))
            return "ACGT"

    class _Fasta:
        def __init__(self, *a, **k):
            pass

        def __enter__(self):
            return self

        def __exit__(self, *a):
            return False

        def __getitem__(self, name):
            return _Chrom()

    class _Pf:
        Fasta = _Fasta

    orig = reference.pyfaidx
    reference.pyfaidx = _Pf
    try:
        iv = make_ga({"chromosome": ["chr1"], "start": [s], "end": [e]})
        out = list(reference.fasta_extract_regions("g.fa", iv))
    finally:
        reference.pyfaidx = orig
    ctx.claim(len(asked) == 1 and And(asked[0][0] == s, asked[0][1] == e), "each bin's sequence is the 0-based half-open slice [start:end)")
    ctx.cover("reached")


def _pool_cfgs():
    out = []
    for sexes in (["F"], ["M"], ["F", "M"], ["M", "F"], ["F", "F"], ["M", "M"], ["F", "M", "M"]):
        for hapx in (False, True):
            for naming in ("chr", "plain"):
                for with_anti in (False, True):
                    c = {"sexes": sexes, "hapx": hapx, "naming": naming, "with_anti": with_anti}
                    if len(sexes) == 3 or (naming == "plain" and (with_anti or len(sexes) == 2)) or (len(sexes) == 2 and with_anti and sexes[0] == sexes[1]):
                        c["tier"] = "thorough"
                    out.append(c)
    out.append({"sexes": ["F", "M"], "hapx": True, "naming": "chr", "with_anti": False, "mismatch": True})
    out.append({"sexes": ["F"], "hapx": False, "naming": "chr", "with_anti": True, "anti_lo": -25})
    out.append({"sexes": ["M", "F"], "hapx": True, "naming": "chr", "with_anti": False, "no_x": True})
    out.append({"sexes": ["F"], "hapx": False, "naming": "chr", "with_anti": True, "no_x": True})
    # the target files listed in another order than the antitarget files: each sample's columns still pair up
    out.append({"sexes": ["M", "F"], "hapx": False, "naming": "chr", "with_anti": True, "reverse_targets": True})
    out.append({"sexes": ["M", "F"], "hapx": True, "naming": "chr", "with_anti": True, "anti_lo": -25, "tier": "thorough"})
    return out


HARNESSES = [
    Harness("pooled", h_pool, _pool_cfgs(), covers=["reached", "mixed sexes", "rejected", "null-coverage antitarget bin"], wall_s=400, thorough_wall_s=1800),
    Harness("inferred_sexes", h_infer, [{"with_anti": True}, {"with_anti": False}, {"with_anti": True, "empty_anti": True}, {"with_anti": True, "stated": False}, {"with_anti": False, "stated": True}], covers=["reached", "antitarget call only", "calls disagree"], wall_s=300),
    Harness("depth_only_corrected", h_depth_only_corrected, [{"n_samples": 2}, {"n_samples": 3, "tier": "thorough"}], covers=["reached"], wall_s=400, thorough_wall_s=1500),
    Harness("consensus_outlier", h_consensus, [{"n": n, "side": sd} for n in (3, 4) for sd in ("low", "high")] + [{"n": n, "side": sd, "family": "depth_only"} for n in (3, 4) for sd in ("low", "high")], covers=["reached"], wall_s=300, query_timeout_ms=60000),
    Harness("gc_rmask", h_gc, [{"L": 0}, {"L": 1}, {"L": 3}, {"L": 4}, {"L": 5, "tier": "thorough"}], covers=["all ambiguous", "mixed case"], wall_s=200, thorough_wall_s=1500, query_timeout_ms=60000),
    Harness("fasta_slice", h_slice, [{}], covers=["reached"]),
]
