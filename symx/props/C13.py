"""C13 -- access lists exactly the non-N runs of the genome, joined and excluded as asked."""
import io

from symx.api import *
from symx.props.common import *

from cnvlib import access

PROPERTY = "C13"
FUNCTIONS = [
    "cnvlib.access.do_access/get_regions/log_this/join_regions/drop_noncanonical_contigs",
    "cnvlib.antitarget.is_canonical_contig_name",
    "skgenome.gary.GenomicArray.from_rows/subtract/by_chromosome, skgenome.subtract, skgenome.tabio.read(bed3)",
]
BOUNDS = {
    "sequence": "one sequence of length <= 6 (quick) / 8 (thorough) whose every base is a solver-chosen N / non-N (upper and lower case), every line width 1..length; plus an optional second sequence (empty, all-N, non-canonical name)",
    "excludes": "0-2 exclude regions with symbolic coordinates in [0, length + 2] (overlapping, nested, touching edges all reachable), written as BED text",
    "min_gap": "symbolic integer 0..length + 1",
}
NOT_COVERED = ["sequences longer than 8 bases; more than 2 sequences", "real file handles (open is replaced by in-memory lines)"]
STUBS = ["cnvlib.access.open -> in-memory FASTA lines; exclude files are io.StringIO handles"]
ASSUMPTIONS = []


def fasta_lines(name, seq, width):
    out = [f">{name} description\n"]
    for i in range(0, len(seq), width):
        out.append(seq[i : i + width] + "\n")
    return out


def h_access(ctx, L, width, prefix, n_excl, second, skip_nc):
    # the sequence: each base N or not, chosen by the solver
    seq = list(prefix)
    for i in range(len(prefix), L):
        seq.append(ctx.choice(f"b{i}", ["A", "N"]))
    # a lower-case n is an ordinary (non-N) base for the scanner
    seq = "".join(seq)
    isN = [c == "N" for c in seq]
    lines = fasta_lines("chr1", seq, width)
    if second == "empty":
        lines += [">chr2\n"]
    elif second == "allN":
        lines += fasta_lines("chr2", "NNN", width)
    elif second == "alt":
        lines += fasta_lines("chr5_KI270791v1_alt", "ANA", width)
    elif second == "plain":
        lines += fasta_lines("chr2", "AnNa", width)
    elif second == "odd":
        lines += fasta_lines("scaffold_12", "AA", width)
    excl = []
    for k in range(n_excl):
        a = ctx.int(f"xa{k}", 0, L + 2)
        b = ctx.int(f"xb{k}", 0, L + 2)
        ctx.assume(a < b)
        excl.append((a, b))
    g = ctx.int("gap", 0, L + 1)
    orig_open = getattr(access, "open", None)

    class _F(list):
        def __enter__(self):
            return iter(self)

        def __exit__(self, *a):
            return False

    access.open = lambda fname, *a, **k: _F(lines)
    ex_handles = []
    if excl:
        ex_handles = [io.StringIO("".join(f"chr1\t{a}\t{b}\n" for a, b in excl))]
    try:
        out = access.do_access("genome.fa", ex_handles, g, skip_nc)
    except Exception as exc:
        claim_raised(ctx, "do_access", exc)
        return
    finally:
        if orig_open is None:
            del access.open
        else:
            access.open = orig_open
    rows = [tuple(r) for r in out.data.itertuples(index=False)]
    ctx.observe("rows", [list(r) for r in rows])
    r1 = [r for r in rows if r[0] == "chr1"]
    # structural clauses
    for r in rows:
        ctx.claim(r[1] < r[2], "every reported region is non-empty")
    for a, b in zip(r1[:-1], r1[1:]):
        ctx.claim(a[2] < b[1], "regions of a sequence are sorted and separated by at least one base")
    for r in r1:
        ctx.claim(And(r[1] >= 0, r[2] <= L), "regions lie inside the sequence")
    # per-position oracle
    avail = [And(not isN[i], *[Not(And(a <= i, i < b)) for a, b in excl]) for i in range(L)]
    for i in range(L):
        bridged = []
        for p in range(1, i + 1):
            for q in range(i, L - 1):
                bridged.append(And(avail[p - 1], avail[q + 1], *[Not(avail[j]) for j in range(p, q + 1)], (q - p + 1) < g))
        want = Or(avail[i], *bridged)
        got = Or(*[And(r[1] <= i, i < r[2]) for r in r1])
        ctx.claim(Iff(got, want), "a base is reported iff it is a non-N, non-excluded base or lies in a gap smaller than the minimum gap size", info=f"pos {i} seq {seq} width {width}")
    # other sequences
    others = [r for r in rows if r[0] != "chr1"]
    if second == "plain":
        # A n N a -> [0,2) and [3,4); joined when the 1-base gap is smaller than min_gap
        if bool(g > 1):
            ctx.claim(others == [("chr2", 0, 4)], "second sequence: gap of 1 bridged when min_gap > 1")
        else:
            ctx.claim(others == [("chr2", 0, 2), ("chr2", 3, 4)], "second sequence: lower-case n is accessible, N is not")
    elif second == "odd":
        ctx.claim(others == [("scaffold_12", 0, 2)], "a sequence the package's contig-name rule does not call non-canonical is kept")
        ctx.cover("noncanonical")
    elif second == "alt":
        if skip_nc:
            ctx.claim(others == [], "non-canonical sequences are dropped when asked")
        else:
            ctx.claim(len(others) >= 1 and others[0][0] == "chr5_KI270791v1_alt", "non-canonical sequences are kept when not asked to drop them")
        ctx.cover("noncanonical")
    else:
        ctx.claim(others == [], "empty and all-N sequences yield no region")
    ctx.cover("bridged a gap", len(r1) >= 1 and Or(*[And(Not(avail[i]), Or(*[And(r[1] <= i, i < r[2]) for r in r1])) for i in range(L)]))
    ctx.cover("kept a gap", len(r1) >= 2)
    ctx.cover("run straddles a line break", width < L)
    if excl:
        ctx.cover("exclude cuts a run", Or(*[And(not isN[i], Not(avail[i])) for i in range(L)]))


def _cfgs():
    out = []
    for L, tier in ((4, "quick"), (6, "quick"), (8, "thorough")):
        for width in range(1, L + 1):
            for prefix in ("AA", "AN", "NA", "NN"):
                for n_excl, second, skip in ((0, None, True), (1, "plain", True), (1, "alt", False), (2, "empty", True), (0, "alt", True), (1, "allN", False), (0, "odd", True)):
                    c = {"L": L, "width": width, "prefix": prefix, "n_excl": n_excl, "second": second, "skip_nc": skip}
                    t = tier
                    if L == 6 and (n_excl == 2 or width in (4, 5) or second == "allN" or (second == "plain" and width == 3)):
                        t = "thorough"
                    if L == 4 and n_excl == 2 and width == 3:
                        t = "thorough"
                    if L == 8 and n_excl == 2:
                        continue
                    if t == "thorough":
                        c["tier"] = "thorough"
                    out.append(c)
    return out


HARNESSES = [
    Harness(
        "access",
        h_access,
        _cfgs(),
        covers=["bridged a gap", "kept a gap", "run straddles a line break", "exclude cuts a run", "noncanonical"],
        wall_s=240,
        thorough_wall_s=1500,
    ),
]
