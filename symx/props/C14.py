"""C14 -- segment filters merge only adjacent like segments and conserve what they merge."""
from symx.api import *
from symx.props.common import *

from cnvlib import call, segfilters

PROPERTY = "C14"
FUNCTIONS = [
    "cnvlib.segfilters.cn/ci/sem/ampdel/squash_by_groups/enumerate_changes/squash_region/require_column",
    "cnvlib.descriptives.weighted_median (as called by squash_region)",
    "cnvlib.call.do_call(filters=[...]): order of application, index reset",
]
BOUNDS = {
    "segments": "quick: <= 3 per table (one or two chromosomes); thorough: 4",
    "values": "cn, cn1 symbolic integers 0..8; ci_lo <= ci_hi, sem >= 0, log2 symbolic reals; weight >= 0 (0 reachable); probes symbolic integers >= 1; coordinates symbolic with gaps",
    "filters": "each filter alone through segfilters; ordered lists through do_call (quick: pairs; thorough: all lists of <= 3 distinct filters with at most one of ci/sem)",
}
NOT_COVERED = ["tables of more than 4 segments", "by_arm grouping (used by the hmm segmenter, see C03)"]
STUBS = []
ASSUMPTIONS = ["segments are sorted and each chromosome's rows are contiguous (as every CNVkit writer emits them)"]

M = 10**6


def sym_table(ctx, chroms, with_cn=True, with_alleles=False, with_ci=False, with_sem=False, weights="sym"):
    n = len(chroms)
    cols = {"chromosome": chroms, "start": [], "end": [], "gene": [f"g{i}" for i in range(n)], "log2": [], "probes": [], "weight": []}
    prev_end = {}
    for i, c in enumerate(chroms):
        s = ctx.int(f"s{i}", 0, M)
        e = ctx.int(f"e{i}", 0, M)
        ctx.assume(s < e)
        if c in prev_end:
            ctx.assume(prev_end[c] <= s)
        prev_end[c] = e
        cols["start"].append(s)
        cols["end"].append(e)
        cols["log2"].append(ctx.real(f"l{i}", -10, 10))
        cols["probes"].append(ctx.int(f"p{i}", 1, 1000))
        if weights == "sym":
            cols["weight"].append(ctx.real(f"w{i}", 0, 100))
        else:
            cols["weight"].append(weights[i])
    if with_cn:
        cols["cn"] = [ctx.int(f"cn{i}", 0, 8) for i in range(n)]
    if with_alleles:
        cols["cn1"] = []
        cols["cn2"] = []
        for i in range(n):
            a = ctx.int(f"a{i}", 0, 8)
            ctx.assume(a <= cols["cn"][i])
            cols["cn1"].append(a)
            cols["cn2"].append(cols["cn"][i] - a)
    if with_ci:
        cols["ci_lo"], cols["ci_hi"] = [], []
        for i in range(n):
            lo = ctx.real(f"lo{i}", -10, 10)
            hi = ctx.real(f"hi{i}", -10, 10)
            ctx.assume(lo <= hi)
            cols["ci_lo"].append(lo)
            cols["ci_hi"].append(hi)
    if with_sem:
        cols["sem"] = [ctx.real(f"sem{i}", 0, 5) for i in range(n)]
    return cols


def level_of(filt, cols, i):
    """The filter's level of row i, from the statement."""
    if filt == "cn":
        lv = (cols["cn"][i],)
    elif filt == "ci":
        lv = (If(cols["ci_lo"][i] > 0, 1, If(cols["ci_hi"][i] < 0, -1, 0)),)
    elif filt == "sem":
        m = cols["sem"][i] * 1.96
        lv = (If(cols["log2"][i] - m > 0, 1, If(cols["log2"][i] + m < 0, -1, 0)),)
    elif filt == "ampdel":
        lv = (If(cols["cn"][i] == 0, -1, If(cols["cn"][i] >= 5, 1, 0)),)
    else:
        raise KeyError(filt)
    if "cn1" in cols:
        # doc/pipeline.rst on `call --filter`: "In each case ... Segments on different chromosomes or
        # with different allele-specific copy number values will not be merged"
        lv += (cols["cn1"][i], cols["cn2"][i])
    return lv


def runs_of(filt, cols):
    """Maximal runs (lists of row indices) of equal level on one chromosome.
    Level equality is decided by the solver (forks)."""
    n = len(cols["chromosome"])
    runs = [[0]]
    for i in range(1, n):
        same = cols["chromosome"][i] == cols["chromosome"][i - 1]
        if same:
            a, b = level_of(filt, cols, i - 1), level_of(filt, cols, i)
            same = bool(And(*[x == y for x, y in zip(a, b)]))
        if same:
            runs[-1].append(i)
        else:
            runs.append([i])
    return runs


def check_merged(ctx, filt, cols, out, runs, what):
    """out: CopyNumArray after the filter; runs: expected runs of input rows."""
    orows = out.data.reset_index(drop=True)
    ctx.claim(len(orows) == len(runs), f"{what}: one output segment per maximal run")
    if len(orows) != len(runs):
        return
    for k, run in enumerate(runs):
        r = orows.iloc[k]
        first, last = run[0], run[-1]
        ctx.claim(r["chromosome"] == cols["chromosome"][first], f"{what}: chromosome kept")
        ctx.claim(And(r["start"] == cols["start"][first], r["end"] == cols["end"][last]), f"{what}: spans from the run's first start to its last end")
        ctx.claim(r["probes"] == Sum([cols["probes"][i] for i in run]), f"{what}: probes are summed")
        W = Sum([cols["weight"][i] for i in run])
        ctx.claim(approx(r["weight"], W), f"{what}: weight is summed")
        num = Sum([cols["weight"][i] * cols["log2"][i] for i in run])
        if concrete(ctx):
            want = num / W if W > 0 else sum(cols["log2"][i] for i in run) / len(run)
            ctx.claim(approx(r["log2"], want), f"{what}: log2 is the weight-averaged log2 of the run")
        else:
            ctx.claim(If(W > 0, r["log2"] * W == num, r["log2"] * len(run) == Sum([cols["log2"][i] for i in run])), f"{what}: log2 is the weight-averaged log2 of the run")
        if len(run) > 1:
            ctx.cover(f"{filt}: merged a run")
            ctx.cover("zero-weight run", W == 0)
    ctx.cover(f"{filt}: kept apart", len(runs) > 1)


def h_single(ctx, filt, chroms, alleles=False):
    cols = sym_table(ctx, chroms, with_cn=filt in ("cn", "ampdel") or alleles, with_alleles=alleles, with_ci=filt == "ci", with_sem=filt == "sem")
    cna = make_cna(cols)
    try:
        out = getattr(segfilters, filt)(cna)
    except Exception as exc:
        claim_raised(ctx, f"{filt}", exc)
        return
    runs = runs_of(filt, cols)
    ctx.observe("n", len(out))
    ctx.observe("starts", col(out, "start"))
    if filt == "ampdel":
        kept = [run for run in runs if bool(level_of(filt, cols, run[0])[0] != 0)]
        ctx.cover("ampdel: dropped a neutral run", len(kept) < len(runs))
        check_merged(ctx, filt, cols, out, kept, filt)
        for v in col(out, "cn"):
            ctx.claim(Or(v == 0, v >= 5), "ampdel keeps only cn = 0 or cn >= 5")
    else:
        check_merged(ctx, filt, cols, out, runs, filt)
        # conservation
        ctx.claim(Sum(col(out, "probes")) == Sum(cols["probes"]), "total probes conserved")
        ctx.claim(approx(Sum(col(out, "weight")), Sum(cols["weight"])), "total weight conserved")
    if filt == "cn":
        for k, run in enumerate(runs):
            if k < len(out):
                ctx.claim(approx(col(out, "cn")[k], cols["cn"][run[0]]), "cn of a merged run is the run's cn")


def _chrom_layouts(n):
    if n == 1:
        return [["chr1"]]
    if n == 2:
        return [["chr1", "chr1"], ["chr1", "chr2"]]
    if n == 3:
        return [["chr1"] * 3, ["chr1", "chr1", "chr2"], ["chr1", "chr2", "chr2"]]
    return [["chr1"] * 4, ["chr1", "chr1", "chr2", "chr2"]]


def _single_cfgs():
    out = []
    for filt in ("cn", "ci", "sem", "ampdel"):
        for n in (1, 2, 3, 4):
            for lay in _chrom_layouts(n):
                c = {"filt": filt, "chroms": lay}
                if n == 4:
                    c["tier"] = "thorough"
                out.append(c)
    for n in (2, 3):
        for lay in _chrom_layouts(n):
            c = {"filt": "cn", "chroms": lay, "alleles": True}
            if n == 3 and lay[1] != lay[2]:
                c["tier"] = "thorough"
            out.append(c)
    # allele-specific copy numbers keep segments apart under every filter (already-called tables)
    for filt in ("ampdel", "ci", "sem"):
        out.append({"filt": filt, "chroms": ["chr1", "chr1"], "alleles": True})
        if filt == "ampdel":  # (three rows with CI / sem columns AND alleles did not finish within the thorough budget)
            out.append({"filt": filt, "chroms": ["chr1"] * 3, "alleles": True, "tier": "thorough"})
    return out


def h_chain(ctx, filters, chroms, method):
    """do_call with a filter list: ci/sem act first (before calling), the rest in the order given."""
    n = len(chroms)
    cols = sym_table(ctx, chroms, with_cn=False, with_ci="ci" in filters, with_sem="sem" in filters, weights=[1.0, 2.0, 0.5, 1.5][:n])
    ctx.cover("chain: 3 rows", n == 3)
    cna = make_cna(cols)
    flist = list(filters)
    try:
        out = call.do_call(cna, None, method, 2, None, False, True, None, flist)
    except Exception as exc:
        claim_raised(ctx, "do_call", exc)
        return
    ctx.observe("n", len(out))
    ctx.observe("starts", col(out, "start"))
    ctx.observe("probes", col(out, "probes"))
    ocn = col(out, "cn")
    has_ampdel = "ampdel" in filters
    if not has_ampdel:
        ctx.claim(Sum(col(out, "probes")) == Sum(cols["probes"]), "chain: total probes conserved")
        ctx.claim(approx(Sum(col(out, "weight")), Sum(cols["weight"])), "chain: total weight conserved")
        for c in sorted(set(chroms)):
            idx = [i for i in range(n) if chroms[i] == c]
            orows = [r for r in out.data.itertuples(index=False) if r.chromosome == c]
            ctx.claim(len(orows) >= 1 and And(orows[0].start == cols["start"][idx[0]], orows[-1].end == cols["end"][idx[-1]]), "chain: each chromosome's covered span is conserved")
    else:
        for v in ocn:
            ctx.claim(Or(v == 0, v >= 5), "chain: ampdel keeps only cn = 0 or cn >= 5")
    rows = list(out.data.itertuples(index=False))
    for a, b in zip(rows[:-1], rows[1:]):
        if a.chromosome == b.chromosome:
            ctx.claim(a.end <= b.start, "chain: output segments stay ordered and disjoint")
            last = [f for f in filters if f not in ("ci", "sem")]
            if last and last[-1] == "cn":
                ctx.claim(a.cn != b.cn, "chain: neighbouring outputs differ in level (cn)")
                ctx.cover("chain: neighbours differ")
    ctx.claim(out.data.index.is_unique, "chain: index is unique after filtering")
    ctx.cover("chain: merged", len(out) < n)


def _chain_cfgs():
    import itertools

    out = []
    names = ("cn", "ci", "sem", "ampdel")
    for k in (1, 2, 3):
        for fl in itertools.permutations(names, k):
            if "ci" in fl and "sem" in fl:
                continue
            for method in ("threshold", "clonal"):
                for lay in (["chr1"] * 2, ["chr1"] * 3, ["chr1", "chr1", "chr2"]):
                    c = {"filters": list(fl), "chroms": lay, "method": method}
                    if len(lay) == 3 and (k >= 2 or "ci" in fl) and not (set(fl) == {"cn", "ampdel"} and method == "threshold" and lay[-1] == "chr1"):
                        c["tier"] = "thorough"
                    if k == 3 and method == "clonal":
                        c["tier"] = "thorough"
                    out.append(c)
    return out


HARNESSES = [
    Harness(
        "single",
        h_single,
        _single_cfgs(),
        covers=["cn: merged a run", "ci: merged a run", "sem: merged a run", "ampdel: merged a run", "cn: kept apart", "ci: kept apart", "ampdel: dropped a neutral run", "zero-weight run"],
        wall_s=240,
        thorough_wall_s=1500,
    ),
    Harness("chain", h_chain, _chain_cfgs(), covers=["chain: merged", "chain: neighbours differ"], wall_s=240, thorough_wall_s=1500, keep_uf=True),
]
