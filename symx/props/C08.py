"""C08 -- every format is read to 0-based half-open, sorted; write-then-read is lossless."""
import io
import re

import numpy as np
import pandas as pd

from symx.api import *
from symx.props.common import *

from skgenome import tabio, GenomicArray as GA
from skgenome.rangelabel import from_label, to_label, unpack_range
from skgenome.tabio import seg as segio

PROPERTY = "C08"
FUNCTIONS = [
    "skgenome.tabio.read/write/read_auto/sniff_region_format/format_patterns (compiled patterns translated to z3 regular expressions at run time)/safe_write/get_filename",
    "skgenome.tabio.tab.read_tab/write_tab, bedio.read_bed/read_bed3/read_bed4/write_bed3/write_bed4",
    "skgenome.tabio.picard.read_interval/write_interval/read_picard_hs, textcoord.read_text/write_text",
    "skgenome.tabio.gff.read_gff, vcfsimple.read_vcf_sites/read_vcf_simple/parse_end_from_info/set_ends, seg.read_seg/parse_seg/write_seg/format_seg",
    "skgenome.rangelabel.from_label/to_label/unpack_range, skgenome.gary.GenomicArray.sort/sort_columns, skgenome.chromsort.sorter_chrom",
]
BOUNDS = {
    "rows": "2-3 rows per table (every input order: the solver picks the coordinates, the row order is a configuration)",
    "coordinates": "symbolic integers 0 <= start < end <= 3*10^8 (start = 0 reachable); they travel through the text as unique decimal tokens",
    "names": "chromosome names from a pool covering the statement's alphabet (chr1, chr2, chr10, chrX, chrY, chrM, 1, 10, X, chrUn_gl000220, chr1_KI270706v1_random, HLA.A); gene labels with commas, dots, dashes",
    "floats": "extra float columns carry concrete sample values (their %.6g text is produced by the real to_csv)",
}
NOT_COVERED = [
    "the digits of symbolic floats (float columns are concrete samples)",
    "vcf through pysam (tabio 'vcf'): htslib, see C18",
    "genepred/refflat readers (not in the statement)",
    "auto-detection: decided for an arbitrary ASCII line of each writer's line grammar (names of letters, digits, underscores; the compiled patterns are translated to z3 regular expressions) and, through the real regexes, for the pool's names with symbolic coordinates; non-ASCII names are outside",
]
STUBS = []
ASSUMPTIONS = ["file objects are in-memory text streams (io.StringIO)", "auto-detection: sequence names do not begin with 'track' (lines so beginning are display directives in BED/GFF); ASCII lines"]

M = 3 * 10**8


def natural_key(name):
    """Independent oracle of the natural chromosome order: 1, 2, 10, X, Y, then
    single-letter names (M), then longer ones."""
    c = name[3:] if name.lower().startswith("chr") else name
    if c in ("X", "Y"):
        return (1, 1000, c)
    m = re.match(r"\d*", c)
    num = int(m.group()) if m.group() else 0
    rest = c[len(m.group()) :]
    if not rest:
        return (0, num, "")
    if len(rest) == 1:
        return (2, num, rest)
    return (3, num, rest)


def sym_rows(ctx, chroms, genes=None):
    rows = []
    for i, c in enumerate(chroms):
        s = ctx.int(f"s{i}", 0, M)
        e = ctx.int(f"e{i}", 0, M)
        ctx.assume(s < e)
        rows.append([c, s, e, (genes[i] if genes else "-")])
    return rows


def claim_sorted(ctx, rows, what):
    for a, b in zip(rows[:-1], rows[1:]):
        ka, kb = natural_key(a[0]), natural_key(b[0])
        if a[0] == b[0]:
            ctx.claim(Or(a[1] < b[1], And(a[1] == b[1], a[2] <= b[2])), f"{what}: rows sorted by start then end within a chromosome")
        else:
            ctx.claim(ka < kb, f"{what}: chromosomes in natural order", info=str((a[0], b[0])))


def same_multiset(ctx, got, want, what):
    """got is sorted; every wanted row appears, with equal multiplicity (decided by forking)."""
    ctx.claim(len(got) == len(want), f"{what}: same number of rows")
    if len(got) != len(want):
        return
    used = [False] * len(got)
    for w in want:
        hit = None
        for j, g in enumerate(got):
            if used[j] or g[0] != w[0] or g[3:] != w[3:]:
                continue
            if bool(And(g[1] == w[1], g[2] == w[2])):
                hit = j
                break
        ctx.claim(hit is not None, f"{what}: every row comes back with identical coordinates and names", info=str(w[0]))
        if hit is not None:
            used[hit] = True


def text_of(ga, fmt):
    buf = io.StringIO()
    tabio.write(ga, buf, fmt, verbose=False)
    return buf.getvalue()


GENES = ["TP53", "A,B", "x.y-z", "-"]


def h_roundtrip(ctx, fmt, chroms, auto=False):
    genes = GENES[: len(chroms)] if fmt in ("bed4", "interval", "tab") else None
    rows = sym_rows(ctx, chroms, genes)
    cols = ["chromosome", "start", "end", "gene"]
    recs = [tuple(r) for r in rows]
    if fmt == "tab":
        cols = cols + ["log2", "probes"]
        vals = [0.123456789, -1.5, 2.0e-7]
        probes = [ctx.int(f"p{i}", 0, 10**6) for i in range(len(rows))]
        recs = [r + (vals[i], probes[i]) for i, r in enumerate(recs)]
    ga = GA.from_rows(recs, columns=cols)
    before = [tuple(r) for r in ga.data.itertuples(index=False)]
    try:
        text1 = text_of(ga, fmt)
        text1b = text_of(ga, fmt)
        back = tabio.read(io.StringIO(text1), "auto" if auto else fmt)
    except Exception as exc:
        claim_raised(ctx, f"{fmt} write/read", exc)
        return
    ctx.claim(text1 == text1b, f"{fmt}: writing the same table twice produces identical bytes")
    after = [tuple(r) for r in ga.data.itertuples(index=False)]
    ctx.claim(len(before) == len(after) and all(len(a) == len(b) and all((x is y) or bool(x == y) for x, y in zip(a, b)) for a, b in zip(before, after)), f"{fmt}: writing leaves the table itself unchanged")
    got = []
    for r in back.data.itertuples(index=False):
        g = getattr(r, "gene", "-") if genes else "-"
        extra = (r.probes,) if fmt == "tab" else ()
        got.append((r.chromosome, r.start, r.end, g) + extra)
    want = [(r[0], r[1], r[2], r[3] if genes else "-") + ((recs[i][5],) if fmt == "tab" else ()) for i, r in enumerate(rows)]
    ctx.observe("n", len(got))
    what = f"{fmt}{' (auto-detected)' if auto else ''} round trip"
    # integer extra column compared like the coordinates
    ctx.claim(len(got) == len(want), f"{what}: same number of rows")
    if len(got) == len(want):
        used = [False] * len(got)
        for w in want:
            hit = None
            for j, g in enumerate(got):
                if used[j] or g[0] != w[0] or g[3] != w[3]:
                    continue
                if bool(And(g[1] == w[1], g[2] == w[2], *([g[4] == w[4]] if fmt == "tab" else []))):
                    hit = j
                    break
            ctx.claim(hit is not None, f"{what}: every row comes back with identical coordinates, names and integer columns")
            if hit is not None:
                used[hit] = True
    claim_sorted(ctx, got, what)
    if fmt == "tab" and len(got) == len(want):
        got_l = sorted(float(v) for v in back.data["log2"])
        ctx.claim(got_l == sorted(float("%.6g" % v) for v in vals[: len(rows)]), "tab: numbers come back equal to 6 significant digits")
    # writing the result again gives identical bytes
    try:
        text2 = text_of(back, fmt)
        back2 = tabio.read(io.StringIO(text2), fmt)
        text3 = text_of(back2, fmt)
    except Exception as exc:
        claim_raised(ctx, f"{fmt} second write", exc)
        return
    ctx.claim(text2 == text3, f"{what}: writing the re-read table again produces identical bytes")
    ctx.cover("start 0", Or(*[r[1] == 0 for r in rows]))
    ctx.cover("reordered", [g[0] for g in got] != [r[0] for r in rows])


def h_readonly(ctx, fmt, chroms):
    """Formats that are only read: generated text with 1-based POS tokens."""
    rows = sym_rows(ctx, chroms)
    lines = []
    if fmt == "gff":
        for c, s, e, _ in rows:
            lines.append(f"{c}\tsrc\tgene\t{s + 1}\t{e}\t.\t+\t.\tName=G1;ID=x")
    elif fmt == "picardhs":
        lines.append("chrom\tstart\tend\tlength\tname\t%gc\tmean_coverage\tnormalized_coverage")
        for c, s, e, _ in rows:
            lines.append(f"{c}\t{s + 1}\t{e}\t{e - s}\tG1\t0.5\t10.0\t1.0")
    elif fmt == "vcf-sites":
        for c, s, e, _ in rows:
            lines.append(f"{c}\t{s + 1}\t.\tN\t<DEL>\t.\tPASS\tSVTYPE=DEL;END={e};SVLEN=-5")
    elif fmt == "vcf-simple":
        lines.append("##fileformat=VCFv4.2")
        lines.append("#CHROM\tPOS\tID\tREF\tALT\tQUAL\tFILTER\tINFO\tFORMAT\tS1")
        for c, s, e, _ in rows:
            lines.append(f"{c}\t{s + 1}\t.\tN\t<DUP>\t.\tPASS\tEND={e}\tGT\t0/1")
    elif fmt == "seg":
        lines.append("ID\tchrom\tloc.start\tloc.end\tnum.mark\tseg.mean")
        for c, s, e, _ in rows:
            lines.append(f"S1\t{c}\t{s + 1}\t{e}\t7\t0.25")
    elif fmt == "interval":
        lines.append("@HD\tVN:1.4")
        for c, s, e, _ in rows:
            lines.append(f"{c}\t{s + 1}\t{e}\t+\tG1")
    elif fmt == "text":
        for c, s, e, _ in rows:
            lines.append(f"{c}:{s + 1}-{e}\tG1")
    text = "\n".join(lines) + "\n"
    try:
        back = tabio.read(io.StringIO(text), fmt)
    except Exception as exc:
        claim_raised(ctx, f"{fmt} read", exc)
        return
    got = [(r.chromosome, r.start, r.end, "-") for r in back.data.itertuples(index=False)]
    same_multiset(ctx, got, [(r[0], r[1], r[2], "-") for r in rows], f"{fmt}: 1-based file coordinates are read to 0-based half-open")
    claim_sorted(ctx, got, fmt)
    ctx.cover("start 0", Or(*[r[1] == 0 for r in rows]))


def h_autodetect(ctx, fmt, chrom):
    """sniff_region_format on the first line each writer / format emits."""
    s = ctx.int("s", 0, M)
    e = ctx.int("e", 0, M)
    ctx.assume(s < e)
    ga = GA.from_rows([(chrom, s, e, "G1")], columns=["chromosome", "start", "end", "gene"])
    if fmt in ("bed3", "bed4", "interval", "text", "tab"):
        text = text_of(ga, fmt)
    elif fmt == "gff":
        text = f"{chrom}\tsrc\tgene\t{s + 1}\t{e}\t.\t+\t.\tName=G1\n"
    elif fmt == "gff-header":
        text = f"##gff-version 3\n{chrom}\tsrc\tgene\t{s + 1}\t{e}\t.\t+\t.\tName=G1\n"
    want = {"bed3": "bed", "bed4": "bed", "gff-header": "gff"}.get(fmt, fmt)
    try:
        got = tabio.sniff_region_format(io.StringIO(text))
    except Exception as exc:
        claim_raised(ctx, "sniff", exc)
        return
    ctx.claim(got == want, f"auto-detection selects the {want} parser for {fmt} lines", info=str((got, text[:60])))
    back = tabio.read(io.StringIO(text), "auto")
    r = list(back.data.itertuples(index=False))
    ctx.claim(len(r) == 1 and r[0].chromosome == chrom and And(r[0].start == s, r[0].end == e), "the auto-detected parser yields the same table")
    ctx.cover("reached")


_GRAMMARS = {}


def _grammars():
    if not _GRAMMARS:
        _GRAMMARS.update(_build_grammars())
    return _GRAMMARS


def _build_grammars():
    import z3
    from symx import strre as R

    def cat(*xs):
        return z3.Concat(*xs)

    T, NL = R._lit("\t"), R._lit("\n")
    CH, NUM, NAME = z3.Plus(R.WORD), z3.Plus(R.DIGIT), z3.Plus(R.NOT_SPACE)
    return {
        "bed3": (cat(CH, T, NUM, T, NUM, NL), "bed"),
        "bed4": (cat(CH, T, NUM, T, NUM, T, NAME, NL), "bed"),
        # write_interval emits the table's strand column: '+', '-', or '.' for tables read from BED
        "interval": (cat(CH, T, NUM, T, NUM, T, z3.Union(R._lit("+"), R._lit("-"), R._lit(".")), T, NAME, NL), "interval"),
        "text": (cat(CH, R._lit(":"), NUM, R._lit("-"), NUM, NL), "text"),
        "tab": (cat(z3.Re(z3.StringVal("chromosome\tstart\tend")), z3.Star(cat(T, z3.Plus(R.WORD))), NL), "tab"),
        "gff": (cat(CH, T, NAME, T, z3.Plus(R.WORD), T, NUM, T, NUM, T, NAME, T, z3.Union(*[R._lit(c) for c in ".?+-"]), T, z3.Union(*[R._lit(c) for c in "012."]), T, z3.Star(R.NOT_NL), NL), "gff"),
    }


SNIFF_SAMPLES = [
    "chr1\t100\t200\n", "chr1\t100\t200\tTP53\n", "1\t5\t9\t+\tG1\n", "chr1:100-200\n", "chrX:1-2\tgene\n", "chromosome\tstart\tend\tgene\tlog2\n",
    "chr1\tsrc\tgene\t5\t9\t.\t+\t.\tName=G\n", "@HD\tVN:1.4\n", "track name=x\n", "\n", "HLA.A\t1\t2\n", "chr1\t1\t2\t-\tA B\n", "a:-\n", "TP53\tNM_1\tchr1\t+\t1\t9\t2\t8\t1\t1,\t9,\n",
]


def h_sniff(ctx, grammar):
    """sniff_region_format on an arbitrary line of a writer's grammar: the compiled patterns are read
    from the real module, translated to z3 regular expressions, and every pattern.match / startswith /
    strip in the real control flow is a solver-decided branch."""
    from symx import strre

    lang, want = _grammars()[grammar]
    real_patterns = dict(tabio.format_patterns)
    if not concrete(ctx):
        # validate the translation on concrete lines first (harness error on disagreement)
        for name, pat in real_patterns.items():
            bad = strre.agrees_on(pat, SNIFF_SAMPLES)
            if bad:
                raise core.HarnessError(f"regex translation of {name!r} disagrees with re on {bad[:2]}")
    line = ctx.string("line", lang)
    # precondition: BED/GFF reserve lines that begin with "track" (and "browser ") for
    # display directives, so a sequence name beginning with "track" cannot be told from one
    ctx.assume(Not(line.startswith("track")))

    class _Handle:
        def __iter__(self):
            return iter([line])

        def seek(self, n):
            pass

    for k, v in real_patterns.items():
        tabio.format_patterns[k] = strre.SymPattern(v)
    try:
        got = tabio.sniff_region_format(_Handle())
    except ValueError:
        got = "unrecognized"
    except Exception as exc:
        claim_raised(ctx, "sniff_region_format", exc)
        return
    finally:
        for k, v in real_patterns.items():
            tabio.format_patterns[k] = v
    ctx.claim(got == want, f"auto-detection selects the {want} parser for every line a {grammar} writer can emit (names of letters, digits, underscores)", info=str(got))
    ctx.cover(f"detected {want}", got == want)


def h_label(ctx):
    s = ctx.int("s", 0, M)
    e = ctx.int("e", 0, M)
    ctx.assume(s < e)
    from skgenome.rangelabel import Region

    lab = to_label(Region("chr7_alt.1", s, e))
    r = from_label(lab, keep_gene=False)
    ctx.claim(r.chromosome == "chr7_alt.1" and And(r.start == s, r.end == e), "from_label(to_label(r)) == r")
    u = unpack_range(lab)
    ctx.claim(And(u.start == s, u.end == e), "unpack_range parses a label to 0-based half-open")
    ctx.cover("start 0", s == 0)


def h_seg_roundtrip(ctx, nsamples):
    """export seg -> import-seg (parse_seg) returns the segments of every sample."""
    from cnvlib.cnary import CopyNumArray as CNA

    tables, ids = [], []
    allrows = []
    for k in range(nsamples):
        chroms = ["chr1", "chrX"] if k % 2 == 0 else ["chr2", "chr2"]
        rows = []
        prev = None
        for i, c in enumerate(chroms):
            s = ctx.int(f"s{k}_{i}", 0, M)
            e = ctx.int(f"e{k}_{i}", 0, M)
            ctx.assume(s < e)
            p = ctx.int(f"p{k}_{i}", 1, 10**5)
            rows.append((c, s, e, "-", [0.25, -1.125][i], p))
        allrows.append(rows)
        tables.append(make_df({"chromosome": [r[0] for r in rows], "start": [r[1] for r in rows], "end": [r[2] for r in rows], "gene": ["-"] * 2, "log2": [r[4] for r in rows], "probes": [r[5] for r in rows]}))
        ids.append(f"S{k}")
    out = segio.write_seg(tables, ids, chrom_ids=False)
    buf = io.StringIO()
    out.to_csv(buf, sep="\t", index=False, float_format="%.6g")
    text = buf.getvalue()
    try:
        parsed = list(segio.parse_seg(io.StringIO(text)))
    except Exception as exc:
        claim_raised(ctx, "parse_seg", exc)
        return
    ctx.claim([sid for sid, _ in parsed] == ids, "import-seg yields the samples in order, each under its ID")
    for (sid, df), rows in zip(parsed, allrows):
        got = list(df.itertuples(index=False))
        ctx.claim(len(got) == len(rows), "seg round trip: one row per segment")
        for g, r in zip(got, rows):
            ctx.claim(g.chromosome == r[0] and And(g.start == r[1], g.end == r[2], g.probes == r[5]), "seg round trip: coordinates and probe counts are identical")
            ctx.claim(approx(g.log2, r[4]), "seg round trip: means equal")
    ctx.cover("start 0", Or(*[r[1] == 0 for rows in allrows for r in rows]))


POOL_ORDERS = [
    ["chr1", "chr1"],
    ["chr2", "chr1"],
    ["chr10", "chr2", "chr1"],
    ["chrY", "chrX", "chr10"],
    ["chrM", "chrX", "chr2"],
    ["X", "10", "1"],
    ["chrUn_gl000220", "chr1_KI270706v1_random", "chr1"],
    ["chr1", "chr1", "chr1"],
    ["CHRX", "Chr10", "CHR2"],  # the prefix is stripped case-insensitively (sorter_chrom's docstring)
]


def _rt_cfgs():
    out = []
    for fmt in ("tab", "bed3", "bed4", "interval", "text"):
        for i, lay in enumerate(POOL_ORDERS):
            c = {"fmt": fmt, "chroms": lay}
            if (i in (5, 6) and fmt in ("bed3", "interval")) or (i == 8 and fmt not in ("tab", "bed4")):
                c["tier"] = "thorough"
            out.append(c)
        out.append({"fmt": fmt, "chroms": ["HLA.A", "chr1"], **({} if fmt in ("tab", "bed4") else {"tier": "thorough"})})
        out.append({"fmt": fmt, "chroms": ["chr2", "chr1"], "auto": True})
    return out


HARNESSES = [
    Harness("roundtrip", h_roundtrip, _rt_cfgs(), covers=["start 0", "reordered"], wall_s=240, thorough_wall_s=1200, nonce_fork=False),
    Harness(
        "read_conventions",
        h_readonly,
        [{"fmt": f, "chroms": lay} for f in ("gff", "picardhs", "vcf-sites", "vcf-simple", "seg", "interval", "text") for lay in (["chr2", "chr1"], ["chrX", "chr10", "chr2"])],
        covers=["start 0"],
        wall_s=240,
        nonce_fork=False,
    ),
    Harness(
        "autodetect",
        h_autodetect,
        [{"fmt": f, "chrom": c} for f in ("bed3", "bed4", "interval", "text", "tab", "gff", "gff-header") for c in ("chr1", "X", "chrUn_gl000220", "chr1_KI270706v1_random")],
        covers=["reached"],
    ),
    Harness("sniff_symbolic_line", h_sniff, [{"grammar": g} for g in ("bed3", "bed4", "interval", "text", "tab", "gff")], covers=["detected bed", "detected interval", "detected text", "detected tab", "detected gff"], wall_s=240, query_timeout_ms=30000),
    Harness("rangelabel", h_label, [{}], covers=["start 0"]),
    Harness("seg_roundtrip", h_seg_roundtrip, [{"nsamples": 1}, {"nsamples": 2}, {"nsamples": 3, "tier": "thorough"}], covers=["start 0"], nonce_fork=False),
]
