"""C06 -- interval arithmetic (merge/flatten/subtract/intersect/subdivide/resize) is base-exact."""
from symx.api import *

from skgenome import GenomicArray as GA

PROPERTY = "C06"
M = 10**6

FUNCTIONS = [
    "skgenome.merge.merge/_merge_overlapping/_nonoverlapping_groups/_squash_tuples",
    "skgenome.merge.flatten/_flatten_overlapping/_flatten_tuples",
    "skgenome.subtract.subtract/_subtraction",
    "skgenome.intersect.by_ranges/by_shared_chroms/iter_ranges/idx_ranges/_irange_simple/_irange_nested",
    "skgenome.subdivide.subdivide/_split_targets",
    "skgenome.gary.GenomicArray.from_rows/sort/merge/flatten/subtract/intersection/subdivide/resize_ranges/total_range_size",
    "skgenome.combiners.get_combiners/join_strings/first_of",
    "skgenome.chromsort.sorter_chrom",
]
BOUNDS = {
    "coordinates": "symbolic integers 0 <= start < end <= 10^6 (every relative order, not a grid)",
    "rows": "quick: merge/flatten <= 3 rows, subtract/intersect <= 2 x 2; thorough: merge/flatten <= 4, subtract/intersect up to 2 x 3 and 3 x 2",
    "chromosomes": "1-2 (chr1, chr2), chromosome present in only one table included",
    "subdivide": "avg/min sizes from a concrete set, coordinates <= 40 so that <= 24 sub-bins arise",
    "resize": "symbolic bp in [-10^6, 10^6], symbolic chromosome size or none",
}
NOT_COVERED = [
    "tables of more than 4 rows",
    "symbolic avg_size/min_size in subdivide (division by a symbolic size is nonlinear): concrete set instead",
    "stranded merge",
]
STUBS = []
ASSUMPTIONS = ["input tables are sorted by the real GenomicArray.sort before the operation, as tabio.read delivers them"]


def sym_rows(ctx, prefix, chroms, genes=None, m=M):
    rows = []
    for i, c in enumerate(chroms):
        s = ctx.int(f"{prefix}s{i}", 0, m)
        e = ctx.int(f"{prefix}e{i}", 0, m)
        ctx.assume(s < e)
        rows.append((c, s, e) + ((genes[i],) if genes else ()))
    return rows


def make_ga(rows, gene=False):
    cols = ["chromosome", "start", "end"] + (["gene"] if gene else [])
    ga = GA.from_rows(rows, columns=cols)
    ga.sort()
    return ga


def covered(rows, c, x):
    return Or(*[And(r[1] <= x, x < r[2]) for r in rows if r[0] == c])


def out_rows(ga):
    return [tuple(r) for r in ga.data.itertuples(index=False)]


def claim_sorted_by_chrom(ctx, rows, label):
    """chr1 rows before chr2 rows; starts ascending within a chromosome."""
    for a, b in zip(rows[:-1], rows[1:]):
        ctx.claim(Or(a[0] < b[0], And(a[0] == b[0], a[1] <= b[1])) if a[0] == b[0] else a[0] < b[0], label)


# ---------------------------------------------------------------- merge


def h_merge(ctx, chroms, gene=False, bp_sym=False):
    genes = [f"g{i}" for i in range(len(chroms))] if gene else None
    rows = sym_rows(ctx, "a", chroms, genes)
    ga = make_ga(rows, gene)
    if bp_sym:
        bp = ctx.int("bp", 0, M)
        try:
            out = ga.merge(bp=bp)
        except Exception as exc:
            claim_raised(ctx, "merge", exc)
            return
    else:
        try:
            out = ga.merge()
        except Exception as exc:
            claim_raised(ctx, "merge", exc)
            return
    orows = out_rows(out)
    ctx.observe("rows", [list(r[:3]) for r in orows])
    x = ctx.int("x", 0, M)
    for c in sorted(set(chroms)):
        ctx.claim(Iff(covered(rows, c, x), covered(orows, c, x)), "merge covers exactly the union")
    for r in orows:
        ctx.claim(r[1] < r[2], "merge output rows are non-empty")
    claim_sorted_by_chrom(ctx, orows, "merge output sorted")
    if not bp_sym:
        for a, b in zip(orows[:-1], orows[1:]):
            if a[0] == b[0]:
                ctx.claim(a[2] < b[1], "merge output disjoint and non-abutting (minimal)")
    ctx.cover("merged-some", len(orows) < len(rows))
    ctx.cover("merged-none", len(orows) == len(rows) and len(rows) > 1)


def _layouts(n):
    if n == 1:
        return [["chr1"]]
    if n == 2:
        return [["chr1", "chr1"], ["chr1", "chr2"]]
    if n == 3:
        return [["chr1"] * 3, ["chr1", "chr1", "chr2"]]
    if n == 4:
        return [["chr1"] * 4, ["chr1", "chr1", "chr2", "chr2"]]


def _merge_cfgs():
    cfgs = []
    for n in (1, 2, 3):
        for lay in _layouts(n):
            for gene in (False, True):
                cfgs.append({"chroms": lay, "gene": gene})
    cfgs.append({"chroms": ["chr1", "chr1"], "bp_sym": True})
    cfgs.append({"chroms": ["chr1", "chr1", "chr1"], "bp_sym": True, "tier": "thorough"})
    cfgs.append({"chroms": ["chr1"] * 4, "tier": "thorough"})
    cfgs.append({"chroms": ["chr1", "chr1", "chr2", "chr2"], "gene": True, "tier": "thorough"})
    return cfgs


# ---------------------------------------------------------------- flatten


def h_flatten(ctx, chroms, gene=False, case=None):
    genes = [f"g{i}" for i in range(len(chroms))] if gene else None
    rows = sym_rows(ctx, "a", chroms, genes)
    apply_case(ctx, case)
    ga = make_ga(rows, gene)
    try:
        out = ga.flatten()
    except Exception as exc:
        claim_raised(ctx, "flatten", exc)
        return
    orows = out_rows(out)
    ctx.observe("rows", [list(r[:3]) for r in orows])
    x = ctx.int("x", 0, M)
    for c in sorted(set(chroms)):
        ctx.claim(Iff(covered(rows, c, x), covered(orows, c, x)), "flatten covers exactly the union")
    for r in orows:
        ctx.claim(r[1] < r[2], "flatten pieces are non-empty")
    for i, a in enumerate(orows):
        for b in orows[i + 1 :]:
            if a[0] == b[0]:
                ctx.claim(Or(a[2] <= b[1], b[2] <= a[1]), "flatten pieces are disjoint")
    claim_sorted_by_chrom(ctx, orows, "flatten output sorted")
    for p in orows:
        for r in rows:
            if r[0] == p[0]:
                for bnd in (r[1], r[2]):
                    ctx.claim(Not(And(p[1] < bnd, bnd < p[2])), "flatten cuts at every input boundary")
    ctx.cover("pieces-more-than-rows", len(orows) > len(rows))


def _flatten_cfgs():
    cfgs = []
    for n in (1, 2, 3):
        for lay in _layouts(n):
            for gene in (False, True):
                cfgs.append({"chroms": lay, "gene": gene})
    # four rows: the table is sorted before the operation, so the symbolic rows are taken in start
    # order without loss (any other order is the same table); split further on the end points
    cfgs += split_cases({"chroms": ["chr1"] * 4, "tier": "thorough"}, ("as0<=as1",), ("as1<=as2",), ("as2<=as3",), ("ae0<=as1", "ae0>as1"), ("ae1<=as2", "ae1>as2"), ("ae2<=as3", "ae2>as3"), ("ae0<=as2", "ae0>as2"), ("ae1<=as3", "ae1>as3"))
    return cfgs


# ---------------------------------------------------------------- subtract


def h_subtract(ctx, a_chroms, b_chroms, case=None):
    arows = sym_rows(ctx, "a", a_chroms, [f"g{i}" for i in range(len(a_chroms))])
    brows = sym_rows(ctx, "b", b_chroms)
    apply_case(ctx, case)
    a = make_ga(arows, True)
    b = make_ga(brows)
    try:
        out = a.subtract(b)
    except Exception as exc:
        claim_raised(ctx, "subtract", exc)
        return
    orows = out_rows(out)
    ctx.observe("rows", [list(r) for r in orows])
    x = ctx.int("x", 0, M)
    for c in sorted(set(a_chroms) | set(b_chroms)):
        ctx.claim(
            Iff(covered(orows, c, x), And(covered(arows, c, x), Not(covered(brows, c, x)))),
            "subtract covers exactly a minus b",
        )
    for r in orows:
        ctx.claim(r[1] < r[2], "subtract pieces are non-empty")
        src = [q for q in arows if q[3] == r[3]]
        ctx.claim(
            len(src) == 1 and And(src[0][0] == r[0], src[0][1] <= r[1], r[2] <= src[0][2]),
            "each piece carries the fields of the row it came from",
        )
    ctx.cover("split-in-two", len(orows) > len(arows))
    ctx.cover("row-removed", len(orows) < len(arows))
    if len(brows) >= 2 and b_chroms[0] == b_chroms[1]:
        ctx.cover("b-nested", And(brows[0][1] <= brows[1][1], brows[1][2] <= brows[0][2]))


_S22 = (("as0<=as1", "as0>as1"), ("bs0<=bs1", "bs0>bs1"), ("as0<=bs0", "as0>bs0"), ("ae0<=bs1", "ae0>bs1"))
_S23 = (("as0<=as1",), ("bs0<=bs1",), ("bs1<=bs2",), ("as0<=bs0", "as0>bs0"), ("ae0<=bs1", "ae0>bs1"), ("as1<=bs2", "as1>bs2"), ("as1<=bs1", "as1>bs1"), ("ae1<=bs2", "ae1>bs2"), ("ae0<=bs0", "ae0>bs0"))
_S32 = (("as0<=as1",), ("as1<=as2",), ("bs0<=bs1",), ("as0<=bs0", "as0>bs0"), ("ae0<=bs1", "ae0>bs1"), ("as2<=bs0", "as2>bs0"), ("as1<=bs0", "as1>bs0"), ("ae1<=bs1", "ae1>bs1"), ("ae2<=bs1", "ae2>bs1"))


def _subtract_cfgs():
    c1, c2 = "chr1", "chr2"
    cfgs = [
        {"a_chroms": [c1], "b_chroms": [c1]},
        {"a_chroms": [c1], "b_chroms": [c1, c1]},
        {"a_chroms": [c1, c1], "b_chroms": [c1]},
        {"a_chroms": [c1, c2], "b_chroms": [c1]},
        {"a_chroms": [c1], "b_chroms": [c2]},
        {"a_chroms": [c1, c2], "b_chroms": [c2, c2], "tier": "thorough"},
        {"a_chroms": [c1], "b_chroms": [c1, c1, c1], "tier": "thorough"},
    ]
    cfgs += split_cases({"a_chroms": [c1, c1], "b_chroms": [c1, c1]}, *_S22)
    # 2 x 3 and 3 x 2 rows: both tables are sorted before the operation, so each table's symbolic rows
    # are taken in start order without loss; the remaining cross comparisons are spread over the cores
    cfgs += split_cases({"a_chroms": [c1, c1], "b_chroms": [c1, c1, c1], "tier": "thorough"}, *_S23)
    cfgs += split_cases({"a_chroms": [c1, c1, c1], "b_chroms": [c1, c1], "tier": "thorough"}, *_S32)
    return cfgs


# ---------------------------------------------------------------- trimmed intersection


def h_intersect_trim(ctx, a_chroms, b_chroms, case=None):
    arows = sym_rows(ctx, "a", a_chroms, [f"g{i}" for i in range(len(a_chroms))])
    brows = sym_rows(ctx, "b", b_chroms)
    apply_case(ctx, case)
    a = make_ga(arows, True)
    b = make_ga(brows)
    try:
        out = a.intersection(b, mode="trim")
    except ValueError as exc:
        # pd.concat of nothing: no overlapping chunk at all
        ctx.claim("No objects to concatenate" in str(exc), "intersection raised ValueError")
        x = ctx.int("x", 0, M)
        for c in sorted(set(a_chroms) | set(b_chroms)):
            ctx.claim(Not(And(covered(arows, c, x), covered(brows, c, x))), "empty intersection only when a and b share no base")
        ctx.cover("empty-intersection")
        return
    except Exception as exc:
        claim_raised(ctx, "intersection", exc)
        return
    orows = out_rows(out)
    ctx.observe("rows", [list(r) for r in orows])
    x = ctx.int("x", 0, M)
    for c in sorted(set(a_chroms) | set(b_chroms)):
        ctx.claim(
            Iff(covered(orows, c, x), And(covered(arows, c, x), covered(brows, c, x))),
            "trimmed intersection covers exactly a and b",
        )
    for r in orows:
        ctx.claim(r[1] < r[2], "intersection pieces are non-empty")
    ctx.cover("trimmed", len(orows) >= 1)


def _intersect_cfgs():
    c1, c2 = "chr1", "chr2"
    cfgs = [
        {"a_chroms": [c1], "b_chroms": [c1]},
        {"a_chroms": [c1, c1], "b_chroms": [c1]},
        {"a_chroms": [c1], "b_chroms": [c1, c1]},
        {"a_chroms": [c1, c2], "b_chroms": [c1]},
        {"a_chroms": [c1], "b_chroms": [c1, c2]},
    ]
    cfgs += split_cases({"a_chroms": [c1, c1], "b_chroms": [c1, c1]}, *_S22)
    cfgs += split_cases({"a_chroms": [c1, c1], "b_chroms": [c1, c1, c1], "tier": "thorough"}, *_S23)
    return cfgs


# ---------------------------------------------------------------- subdivide


def _rhe(num, den):
    """round-half-even of num/den for symbolic int num, concrete int den > 0."""
    q = num // den
    r2 = 2 * (num - q * den)
    return If(r2 < den, q, If(r2 > den, q + 1, If(q % 2 == 0, q, q + 1)))


def h_subdivide(ctx, chroms, avg, mn, m=40):
    rows = sym_rows(ctx, "a", chroms, None, m)
    ga = make_ga(rows)
    try:
        out = ga.subdivide(avg, mn)
    except Exception as exc:
        claim_raised(ctx, "subdivide", exc)
        return
    orows = out_rows(out)
    ctx.observe("rows", [list(r) for r in orows])
    # independent oracle for the merged regions (<= 2 rows)
    if len(rows) == 1:
        regions = [(rows[0][0], rows[0][1], rows[0][2], True)]
    else:
        r0, r1 = rows
        if r0[0] != r1[0]:
            regions = [(r0[0], r0[1], r0[2], True), (r1[0], r1[1], r1[2], True)]
        else:
            touch = And(r0[1] <= r1[2], r1[1] <= r0[2])
            lo, hi = Min2(r0[1], r1[1]), Max2(r0[2], r1[2])
            # if they touch: one region (lo, hi); else two
            first_lo = lo
            first_hi = If(touch, hi, If(r0[1] <= r1[1], r0[2], r1[2]))
            second_lo = If(r0[1] <= r1[1], r1[1], r0[1])
            second_hi = hi
            regions = [(r0[0], first_lo, first_hi, True), (r0[0], second_lo, second_hi, Not(touch))]
    # expected pieces: for each region, k pieces with ends lo + floor(i*L/k)
    # the claim is stated per output row and per position
    x = ctx.int("x", 0, m)
    for c in sorted(set(chroms)):
        exp_cov = Or(*[And(ex, hi - lo >= mn, lo <= x, x < hi) for (cc, lo, hi, ex) in regions if cc == c])
        ctx.claim(Iff(covered(orows, c, x), exp_cov), "subdivide covers exactly the merged regions of at least min_size")
    for i, a in enumerate(orows):
        ctx.claim(a[1] < a[2], "subdivide bins are non-empty")
        for b in orows[i + 1 :]:
            if a[0] == b[0]:
                ctx.claim(Or(a[2] <= b[1], b[2] <= a[1]), "subdivide bins are disjoint")
    # each bin lies in exactly one region and has size floor(L/k) or ceil(L/k), k = max(1, round(L/avg));
    # the number of bins inside a region is k
    for (cc, lo, hi, ex) in regions:
        L = hi - lo
        k = Max2(1, _rhe(L, avg))
        inside = [And(r[0] == cc, lo <= r[1], r[2] <= hi) if r[0] == cc else False for r in orows]
        n_in = Count(inside)
        ctx.claim(Implies(And(ex, L >= mn), n_in == k), "region is cut into max(1, round(length/avg)) bins")
        for r, ins in zip(orows, inside):
            sz = r[2] - r[1]
            ctx.claim(
                Implies(And(ex, L >= mn, ins), And(sz * k <= L + k - 1, sz * k >= L - k + 1, Or(sz == L // k, sz == L // k + 1))),
                "bins of a region have equal size (+-1)",
            )
    ctx.cover("split", len(orows) > len(rows))
    ctx.cover("dropped-small", len(orows) < len(rows) and len(rows) == 1)


def _subdivide_cfgs():
    cfgs = []
    for avg, mn in ((3, 0), (4, 2), (7, 5), (10, 0)):
        cfgs.append({"chroms": ["chr1"], "avg": avg, "mn": mn})
    cfgs.append({"chroms": ["chr1", "chr1"], "avg": 5, "mn": 3, "m": 24})
    cfgs.append({"chroms": ["chr1", "chr2"], "avg": 5, "mn": 3, "m": 16, "tier": "thorough"})
    cfgs.append({"chroms": ["chr1", "chr1"], "avg": 3, "mn": 2, "m": 24, "tier": "thorough"})
    cfgs.append({"chroms": ["chr1"], "avg": 2, "mn": 0, "m": 40, "tier": "thorough"})
    return cfgs


# ---------------------------------------------------------------- resize_ranges


def h_resize(ctx, chroms, sizes):
    rows = sym_rows(ctx, "a", chroms)
    bp = ctx.int("bp", -M, M)
    chrom_sizes = None
    if sizes:
        chrom_sizes = {}
        for c in sorted(set(chroms)):
            chrom_sizes[c] = ctx.int(f"size_{c}", 1, 2 * M)
        for r in rows:
            ctx.assume(r[2] <= chrom_sizes[r[0]])
    ga = make_ga(rows)
    srows = out_rows(ga)
    try:
        out = ga.resize_ranges(bp, chrom_sizes)
    except Exception as exc:
        claim_raised(ctx, "resize_ranges", exc)
        return
    orows = out_rows(out)
    ctx.observe("rows", [list(r) for r in orows])

    def clamp(v, c):
        v = Max2(v, 0)
        if chrom_sizes:
            v = Min2(v, chrom_sizes[c])
        return v

    exp = []
    for r in srows:
        s2, e2 = clamp(r[1] - bp, r[0]), clamp(r[2] + bp, r[0])
        exp.append((r[0], s2, e2, e2 > s2))
    # the output is the subsequence of expected rows that are non-empty (for bp < 0), in order
    # every expected row with positive size must be present, and empties absent when shrinking
    kept = [e for e in exp]
    # decide presence concretely by forking on emptiness (small tables)
    present = []
    for e in kept:
        if bp < 0:
            if e[3]:
                present.append(e)
        else:
            present.append(e)
    ctx.claim(len(orows) == len(present), "resize keeps every interval that does not shrink to nothing, drops the others")
    if len(orows) == len(present):
        for o, e in zip(orows, present):
            ctx.claim(And(o[0] == e[0], o[1] == e[1], o[2] == e[2]), "resize moves both ends by bp, clipped to [0, chromosome size]")
    ctx.cover("dropped", len(orows) < len(srows))
    ctx.cover("clipped-at-zero", Or(*[r[1] - bp < 0 for r in srows]))
    # the input is not modified
    for a, b in zip(srows, out_rows(ga)):
        ctx.claim(And(a[1] == b[1], a[2] == b[2]), "resize leaves its input untouched")


# ---------------------------------------------------------------- total_range_size


def h_total(ctx, chroms):
    rows = sym_rows(ctx, "a", chroms)
    ga = make_ga(rows)
    got = ga.total_range_size()
    ctx.observe("total", got)
    if len(rows) == 1:
        exp = rows[0][2] - rows[0][1]
    else:
        r0, r1 = rows
        exp = (r0[2] - r0[1]) + (r1[2] - r1[1])
        if r0[0] == r1[0]:
            ov = Min2(r0[2], r1[2]) - Max2(r0[1], r1[1])
            exp = exp - If(ov > 0, ov, 0)
    ctx.claim(got == exp, "total_range_size counts each covered base once")


HARNESSES = [
    Harness("merge", h_merge, _merge_cfgs(), covers=["merged-some", "merged-none"], wall_s=200, thorough_wall_s=1500),
    Harness("flatten", h_flatten, _flatten_cfgs(), covers=["pieces-more-than-rows"], wall_s=200, thorough_wall_s=3000, max_paths=60000),
    Harness("subtract", h_subtract, _subtract_cfgs(), covers=["split-in-two", "row-removed", "b-nested"], wall_s=200, thorough_wall_s=3000, max_paths=60000),
    Harness("intersect_trim", h_intersect_trim, _intersect_cfgs(), covers=["trimmed", "empty-intersection"], wall_s=200, thorough_wall_s=3000, max_paths=60000),
    Harness("subdivide", h_subdivide, _subdivide_cfgs(), covers=["split", "dropped-small"], wall_s=200, thorough_wall_s=1500),
    Harness(
        "resize",
        h_resize,
        [
            {"chroms": ["chr1"], "sizes": False},
            {"chroms": ["chr1"], "sizes": True},
            {"chroms": ["chr1", "chr1"], "sizes": True},
            {"chroms": ["chr1", "chr2"], "sizes": True},
            {"chroms": ["chr1", "chr1", "chr2"], "sizes": True, "tier": "thorough"},
        ],
        covers=["dropped", "clipped-at-zero"],
    ),
    Harness("total_range_size", h_total, [{"chroms": ["chr1"]}, {"chroms": ["chr1", "chr1"]}, {"chroms": ["chr1", "chr2"]}]),
]
