"""C15 -- centring is a uniform shift zeroing the autosomes; sex-chromosome clauses."""
from symx.api import *
from symx.props.common import *
from symx.props.C01 import in_par, PAR, MAXC
from symx.props.C19 import median_term

from cnvlib import params

PROPERTY = "C15"
FUNCTIONS = [
    "cnvlib.cnary.CopyNumArray.center_all/drop_low_coverage/autosomes/shift_xx/expect_flat_log2",
    "cnvlib.cnary.CopyNumArray.chr_x_label/chr_y_label/chr_x_filter/chr_y_filter/parx_filter/pary_filter",
    "skgenome.gary.GenomicArray.autosomes/by_chromosome",
]
BOUNDS = {
    "bins": "4-6 bins over up to 3 autosomes + X + Y (quick), 7 (thorough); every log2 symbolic in [-30, 10] (null-coverage bins reachable)",
    "depth column": "configurations with a depth column whose entries are solver-chosen from {0, 5} (depth 0 = null coverage)",
    "estimators": "median and mean (as functions and by name), by_chrom on/off, skip_low on/off",
    "PAR": "one X bin with symbolic coordinates when a PAR genome is given",
    "naming": "chrN / N / no autosome-like names",
}
NOT_COVERED = [
    "estimators 'mode' (scipy gaussian_kde) and 'biweight' (nonlinear, see C19)",
    "the statistical clause about guess_xx / the sex report under noise (scipy median_test; a statement about distributions)",
    "skip_low when every autosomal bin is null-coverage (the statement does not say what is centred then)",
    "expect_flat_log2 on PAR-Y bins with a PAR genome and a MALE reference (statement: '-1 on Y'; the code deliberately gives 0 there): not claimed either way; for a female reference -1 is claimed on all of Y",
]
STUBS = []
ASSUMPTIONS = []

LOW = params.NULL_LOG2_COVERAGE - params.MIN_REF_COVERAGE


def est_term(name, xs):
    if name == "median":
        return median_term(xs)
    return Sum(xs) / len(xs)


def h_center(ctx, chroms, estimator, by_chrom, skip_low, genome=None, as_name=False, with_depth=False):
    """with_depth: the table also has a depth column, each bin's depth solver-chosen from {0, 5}: a
    null-coverage bin is one with log2 below the cut-off OR depth 0 (drop_low_coverage)."""
    n = len(chroms)
    starts = [100 * (i + 1) for i in range(n)]
    ends = [100 * (i + 1) + 50 for i in range(n)]
    xcls = {}
    for i, c in enumerate(chroms):
        if genome and c in ("chrX", "X") and not xcls:
            s = ctx.int("sX", 0, MAXC)
            e = ctx.int("eX", 0, MAXC)
            ctx.assume(s < e)
            starts[i], ends[i] = s, e
            xcls[i] = bool(in_par(genome, "X", s, e))
    logs = [ctx.real(f"l{i}", -30, 10) for i in range(n)]
    cols = {"chromosome": chroms, "start": starts, "end": ends, "gene": ["g"] * n, "log2": list(logs)}
    depths = None
    if with_depth:
        depths = [[0.0, 5.0][ctx.choice(f"d{i}", [0, 1])] for i in range(n)]
        cols["depth"] = list(depths)
    cna = make_cna(cols)
    import pandas as pd

    est = estimator if as_name else {"median": pd.Series.median, "mean": pd.Series.mean}[estimator]
    try:
        cna.center_all(est, by_chrom, skip_low, False, genome)
    except Exception as exc:
        claim_raised(ctx, "center_all", exc)
        return
    out = col(cna, "log2")
    ctx.observe("out", out)
    # the selected bins, from the statement
    import re

    auto_like = [bool(re.match(r"(chr)?\d+$", c)) for c in chroms]
    if any(auto_like):
        sel = [i for i in range(n) if auto_like[i] or xcls.get(i, False)]
    else:
        sel = list(range(n))
    if skip_low:
        kept = [i for i in sel if not (bool(logs[i] < LOW) or (depths is not None and depths[i] == 0))]
        ctx.cover("null-coverage bin ignored", len(kept) < len(sel))
        if any(auto_like) and not any(auto_like[i] for i in kept):
            return  # outside the claim (see NOT_COVERED)
        sel = kept
    shift = out[0] - logs[0]
    for i in range(1, n):
        ctx.claim(approx(out[i] - logs[i], shift), "center_all adds one constant to every bin (differences untouched)")
    if not sel:
        ctx.claim(approx(shift, 0), "nothing to centre on: values unchanged")
        return
    if by_chrom:
        groups = {}
        for i in sel:
            groups.setdefault(chroms[i], []).append(out[i])
        centre = est_term(estimator, [est_term(estimator, g) for g in groups.values()])
    else:
        centre = est_term(estimator, [out[i] for i in sel])
    ctx.claim(approx(centre, 0), f"the {estimator} of the autosomal bins ({'per chromosome, then across' if by_chrom else 'all bins'}) becomes zero")
    ctx.cover("PAR-X counted as autosomal", any(xcls.values()))
    ctx.cover("reached")


def h_shift_xx(ctx, naming, hapx, is_xx):
    pre = "chr" if naming == "chr" else ""
    chroms = [pre + "1", pre + "X", pre + "X", pre + "Y"]
    logs = [ctx.real(f"l{i}", -10, 10) for i in range(4)]
    cna = make_cna({"chromosome": chroms, "start": [1, 1, 100, 1], "end": [50, 50, 150, 50], "gene": ["g"] * 4, "log2": list(logs)})
    out = cna.shift_xx(hapx, is_xx)
    got = col(out, "log2")
    ctx.observe("out", got)
    # expected level of X for the sample's sex relative to the reference sex
    level = (1 if is_xx else 0) if hapx else (0 if is_xx else -1)
    for i, c in enumerate(chroms):
        if c.endswith("X"):
            ctx.claim(approx(got[i], logs[i] - level), "shift_xx brings chrX to the autosomal level")
        else:
            ctx.claim(approx(got[i], logs[i]), "shift_xx leaves the other chromosomes alone")
    for a, b in zip(col(cna, "log2"), logs):
        ctx.claim(approx(a, b), "shift_xx leaves its input untouched")
    ctx.cover("reached")


def h_shift_inferred(ctx, hapx, genome):
    """shift_xx with the sex left to be inferred: the inference itself is statistical (not covered), but
    it must be asked the right question -- the reference sex and PAR genome are forwarded to guess_xx --
    and its answer decides the shift."""
    from cnvlib.cnary import CopyNumArray as CNA

    chroms = ["chr1", "chrX", "chrY"]
    logs = [ctx.real(f"l{i}", -10, 10) for i in range(3)]
    cna = make_cna({"chromosome": chroms, "start": [1, 3000000, 3000000], "end": [50, 3000100, 3000100], "gene": ["g"] * 3, "log2": list(logs)})
    seen = []
    answer = bool(ctx.choice("guess", [0, 1]))

    def spy(self, is_haploid_x_reference=False, diploid_parx_genome=None, verbose=True):
        seen.append((is_haploid_x_reference, diploid_parx_genome))
        return answer

    real = CNA.guess_xx
    CNA.guess_xx = spy
    try:
        out = cna.shift_xx(hapx, None, genome)
    finally:
        CNA.guess_xx = real
    ctx.claim(seen == [(hapx, genome)], "shift_xx asks guess_xx about the stated reference sex and PAR genome")
    level = (1 if answer else 0) if hapx else (0 if answer else -1)
    got = col(out, "log2")
    ctx.claim(And(approx(got[1], logs[1] - level), approx(got[0], logs[0]), approx(got[2], logs[2])), "the inferred sex decides the chrX shift")
    ctx.cover("reached")


def h_flat(ctx, naming, hapx, genome, symrow):
    pre = "chr" if naming == "chr" else ""
    chroms = [pre + "1", pre + "X", pre + "Y"]
    starts, ends = [100, 3000000, 3000000], [200, 3000100, 3000100]
    par = None
    if genome:
        s = ctx.int("s", 0, MAXC)
        e = ctx.int("e", 0, MAXC)
        ctx.assume(s < e)
        chroms.append(pre + symrow)
        starts.append(s)
        ends.append(e)
        par = bool(in_par(genome, symrow, s, e))
    n = len(chroms)
    cna = make_cna({"chromosome": chroms, "start": starts, "end": ends, "gene": ["g"] * n, "log2": [0.0] * n})
    got = list(cna.expect_flat_log2(hapx, genome))
    ctx.observe("flat", got)
    ctx.claim(got[0] == 0, "expect_flat_log2 is 0 on autosomes")
    ctx.claim(got[1] == (-1 if hapx else 0), "expect_flat_log2 is -1 on X only for a male reference")
    ctx.claim(got[2] == -1, "expect_flat_log2 is -1 on Y")
    if genome:
        if symrow == "X":
            want = 0 if (par or not hapx) else -1
            ctx.claim(got[3] == want, "PAR-X is autosomal (0); the rest of X is -1 only for a male reference")
            ctx.cover("PAR-X bin", par)
        elif not par:
            ctx.claim(got[3] == -1, "expect_flat_log2 is -1 on Y (outside PAR)")
        elif not hapx:
            ctx.claim(got[3] == -1, "expect_flat_log2 is -1 on Y for a female reference, PAR1/2 included")
            ctx.cover("PAR-Y bin, female reference")
    ctx.cover("reached")


def _center_cfgs():
    out = []
    lay_q = [
        ["chr1", "chr1", "chr2", "chrX"],
        ["1", "2", "2", "X", "Y"],
        ["chr1", "chr2", "chr3", "chrX", "chrY"],
        ["chr1", "chr1", "chr1", "chr2"],
        ["contigA", "contigA", "contigB"],
        ["chrX", "chrX", "chrY"],
    ]
    lay_t = [["chr1", "chr1", "chr2", "chr2", "chr3", "chrX", "chrY"], ["1", "1", "1", "2", "2", "X"]]
    for lay, tier in [(l, "quick") for l in lay_q] + [(l, "thorough") for l in lay_t]:
        for est in ("median", "mean"):
            for by_chrom in (True, False):
                for skip_low in (False, True):
                    c = {"chroms": lay, "estimator": est, "by_chrom": by_chrom, "skip_low": skip_low}
                    if tier == "thorough":
                        c["tier"] = "thorough"
                    out.append(c)
    out.append({"chroms": ["chr1", "chr1", "chr2", "chrX"], "estimator": "median", "by_chrom": True, "skip_low": False, "as_name": True})
    out.append({"chroms": ["chr1", "chr1", "chr2", "chrX"], "estimator": "mean", "by_chrom": False, "skip_low": True, "as_name": True})
    out.append({"chroms": ["chr1", "chr1", "chr2", "chrX"], "estimator": "mean", "by_chrom": False, "skip_low": True, "with_depth": True})
    out.append({"chroms": ["chr1", "chr1", "chr2", "chrX"], "estimator": "median", "by_chrom": True, "skip_low": True, "with_depth": True, "tier": "thorough"})
    out.append({"chroms": ["chr1", "chr2", "chrX"], "estimator": "mean", "by_chrom": True, "skip_low": False, "with_depth": True})
    for genome in ("grch37", "grch38"):
        for est in ("median", "mean"):
            for by_chrom in (True, False):
                c = {"chroms": ["chr1", "chr2", "chrX", "chrX"], "estimator": est, "by_chrom": by_chrom, "skip_low": False, "genome": genome}
                if genome == "grch37" and est == "mean":
                    c["tier"] = "thorough"
                out.append(c)
        out.append({"chroms": ["1", "2", "X"], "estimator": "median", "by_chrom": True, "skip_low": True, "genome": genome})
        # no chromosome named like an autosome: everything is centred, PAR genome or not
        out.append({"chroms": ["chrX", "chrX", "chrY"], "estimator": "mean", "by_chrom": False, "skip_low": False, "genome": genome})
    return out


HARNESSES = [
    Harness("center_all", h_center, _center_cfgs(), covers=["reached", "null-coverage bin ignored", "PAR-X counted as autosomal"], wall_s=240, thorough_wall_s=1200),
    Harness("shift_xx", h_shift_xx, [{"naming": nm, "hapx": h, "is_xx": x} for nm in ("chr", "plain") for h in (False, True) for x in (False, True)], covers=["reached"]),
    Harness("shift_xx_inferred", h_shift_inferred, [{"hapx": h, "genome": g} for h in (False, True) for g in (None, "grch38")], covers=["reached"]),
    Harness(
        "expect_flat_log2",
        h_flat,
        [{"naming": nm, "hapx": h, "genome": g, "symrow": sr} for nm in ("chr", "plain") for h in (False, True) for g, sr in ((None, None), ("grch37", "X"), ("grch38", "X"), ("grch37", "Y"), ("grch38", "Y"))],
        covers=["reached", "PAR-X bin", "PAR-Y bin, female reference"],
    ),
]
