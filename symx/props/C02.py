"""C02 -- threshold calls are a monotone step function of log2; cn1 + cn2 = cn."""
from symx.api import *
from symx.props.common import *

from cnvlib import call

PROPERTY = "C02"
FUNCTIONS = [
    "cnvlib.call.do_call(method='threshold') incl. the allelic split (cn1/cn2) and purity rescaling of log2 and baf",
    "cnvlib.call.absolute_threshold/_reference_copies_pure/_log2_ratio_to_absolute_pure/rescale_baf",
    "cnvlib.call.absolute_clonal/log2_ratios (purity < 1 before thresholding)",
]
BOUNDS = {
    "rows": "3 (autosome, X, Y) in the step-function harness; 2 rows of one chromosome class in the monotonicity harness",
    "thresholds": "symbolic strictly increasing vectors of length 1..4 (quick), 1..12 on one row (thorough) through absolute_threshold; default and two concrete vectors through do_call",
    "log2": "symbolic real in [-30, 30]; NaN as a configuration",
    "baf": "symbolic real in [0, 1]; NaN as a configuration; in the allelic harness log2 is a solver-chosen member of an 8-value grid and purity is one of none/0.3/0.6/0.95 (absolute*baf under round() is nonlinear otherwise)",
    "ploidy": "1..6",
}
NOT_COVERED = ["float64 rounding at a threshold (A1): thresholds are compared as exact rationals of their float values", "symbolic thresholds through do_call itself (its log message formats them with %g): they go through absolute_threshold"]
STUBS = ["variants object: baf_by_ranges returns the harness's symbolic baf column"]
ASSUMPTIONS = ["exp2 is an uninterpreted function with positivity, strict monotonicity and rational enclosures at the thresholds"]

DEFAULT_T = (-1.1, -0.25, 0.2, 0.7)


def ref_copies(cls, ploidy, hapx):
    if cls == "y" or (cls == "x" and hapx):
        return ploidy // 2
    return ploidy


def chrom_of(cls, naming):
    pre = "chr" if naming == "chr" else ""
    return pre + {"auto": "1", "x": "X", "y": "Y", "auto2": "7"}[cls]


def oracle_cn(L, ts, r, ploidy):
    """The statement, literally."""
    c = Count([t < L for t in ts])
    below = c if r == ploidy else (c * r) // ploidy  # truncation of a non-negative quotient
    v = r * exp2(L)
    above = -((-v).__floor__()) if isinstance(v, Sym) else int(-((-v) // 1))
    return If(L <= ts[-1], below, above)


def h_step_direct(ctx, ploidy, hapx, naming, k, classes):
    """absolute_threshold with symbolic thresholds."""
    ts = [ctx.real(f"t{i}", -5, 5) for i in range(k)]
    for a, b in zip(ts[:-1], ts[1:]):
        ctx.assume(a < b)
    Ls = [ctx.real(f"L{i}", -30, 30) for i in range(len(classes))]
    cna = make_cna({"chromosome": [chrom_of(c, naming) for c in classes], "start": [100] * len(classes), "end": [200] * len(classes), "gene": ["g"] * len(classes), "log2": Ls})
    try:
        got = call.absolute_threshold(cna, ploidy, tuple(ts), hapx)
    except Exception as exc:
        claim_raised(ctx, "absolute_threshold", exc)
        return
    ctx.claim(len(got) == len(classes), "one value per row")
    ctx.observe("cn", list(got))
    for i, cls in enumerate(classes):
        r = ref_copies(cls, ploidy, hapx)
        ctx.claim(got[i] == oracle_cn(Ls[i], ts, r, ploidy), f"cn = number of thresholds strictly below log2 (rescaled), ceil(r*2^log2) above the last [{cls}]")
        ctx.cover("at-a-threshold", Or(*[Ls[i] == t for t in ts]))
        ctx.cover("above-last", Ls[i] > ts[-1])
        ctx.cover("rescaled", r != ploidy and r > 0)


def h_step_call(ctx, ploidy, hapx, naming, thresholds, nan_row=None, classes=None):
    """do_call(method=threshold) with concrete threshold vectors, symbolic log2.  `classes`: the
    chromosome class of each of the three rows (default one of each; a revisited chromosome --
    rows of one chromosome not contiguous -- is a table do_call accepts)."""
    classes = list(classes or ["auto", "x", "y"])
    Ls = [ctx.real(f"L{i}", -30, 30) for i in range(3)]
    if nan_row is not None:
        Ls[nan_row] = float("nan")
    cna = make_cna({"chromosome": [chrom_of(c, naming) for c in classes], "start": [100] * 3, "end": [200] * 3, "gene": ["g"] * 3, "log2": Ls})
    kw = {} if thresholds is None else {"thresholds": tuple(thresholds)}
    try:
        out = call.do_call(cna, None, "threshold", ploidy, None, hapx, False, None, None, **kw)
    except Exception as exc:
        claim_raised(ctx, "do_call", exc)
        return
    ts = DEFAULT_T if thresholds is None else thresholds
    ctx.claim(len(out) == 3, "the number of rows never changes")
    cns = col(out, "cn")
    ctx.observe("cn", cns)
    for i, cls in enumerate(classes):
        r = ref_copies(cls, ploidy, hapx)
        ctx.claim(is_intlike(cns[i]), "cn is an integer")
        if i == nan_row:
            ctx.claim(cns[i] == r, "a missing log2 yields the neutral reference copy number")
            ctx.cover("nan-row")
            continue
        ctx.claim(cns[i] == oracle_cn(Ls[i], list(ts), r, ploidy), f"do_call: cn follows the step function [{cls}]")
        ctx.cover("at-a-threshold", Or(*[Ls[i] == t for t in ts]))
        if cls == "auto" and ploidy == 2 and thresholds is None:
            ctx.claim(Implies(Ls[i] == 0, cns[i] == 2), "cn is 2 at log2 0 on a diploid autosome")


def h_monotone(ctx, ploidy, hapx, naming, cls):
    """Default thresholds: L1 <= L2 on the same chromosome => cn1 <= cn2."""
    L1 = ctx.real("L1", -30, 30)
    L2 = ctx.real("L2", -30, 30)
    ctx.assume(L1 <= L2)
    for t in DEFAULT_T:
        exp2(t)  # instantiate the enclosure and the monotonicity lemmas at the thresholds
    # first row fixes the naming style as in a real file
    chroms = [chrom_of("auto2", naming), chrom_of(cls, naming), chrom_of(cls, naming)]
    cna = make_cna({"chromosome": chroms, "start": [100, 100, 300], "end": [200, 200, 400], "gene": ["g"] * 3, "log2": [0.0, L1, L2]})
    try:
        out = call.do_call(cna, None, "threshold", ploidy, None, hapx, False)
    except Exception as exc:
        claim_raised(ctx, "do_call", exc)
        return
    cns = col(out, "cn")
    ctx.observe("cn", cns)
    ctx.claim(cns[1] <= cns[2], "cn never decreases as log2 increases (default thresholds)")
    ctx.cover("crosses-last-threshold", And(L1 <= DEFAULT_T[-1], L2 > DEFAULT_T[-1]))
    ctx.cover("both-above", L1 > DEFAULT_T[-1])


class _Variants:
    def __init__(self, bafs):
        self.bafs = bafs

    def __bool__(self):
        return True

    def baf_by_ranges(self, ranges, **kw):
        import pandas as pd

        return pd.Series(obj_col(self.bafs), index=ranges.data.index)


LGRID = [-3.0, -1.2, -0.3, 0.0, 0.26, 0.7, 0.85, 1.6]


def h_allelic(ctx, ploidy, hapx, naming, purity, nan_baf, method):
    """BAF symbolic in [0,1]; log2 a solver-chosen member of a concrete grid and purity
    concrete (the product absolute*baf under round() is nonlinear otherwise and z3
    answers unknown)."""
    classes = ["auto", "x"]
    Ls = [ctx.choice(f"L{i}", LGRID) for i in range(2)]
    bafs = [ctx.real(f"b{i}", 0, 1) for i in range(2)]
    if nan_baf is not None:
        bafs[nan_baf] = float("nan")
    cna = make_cna({"chromosome": [chrom_of(c, naming) for c in classes], "start": [100] * 2, "end": [200] * 2, "gene": ["g"] * 2, "log2": Ls})
    try:
        out = call.do_call(cna, _Variants(bafs), method, ploidy, purity, hapx, True)
    except Exception as exc:
        claim_raised(ctx, "do_call", exc)
        return
    cn, cn1, cn2 = col(out, "cn"), col(out, "cn1"), col(out, "cn2")
    ctx.observe("cn", cn)
    ctx.observe("cn1", cn1)
    ctx.claim(len(out) == 2, "the number of rows never changes")
    for i in range(2):
        if i == nan_baf:
            if bool(cn[i] > 0):
                ctx.claim(is_nan(cn1[i]) and is_nan(cn2[i]), "cn1 and cn2 are both missing where a segment has no BAF and cn > 0")
                ctx.cover("nan-baf-positive-cn")
            else:
                ctx.claim((not is_nan(cn1[i])) and (not is_nan(cn2[i])) and And(cn1[i] == 0, cn2[i] == 0), "no BAF and cn = 0: cn1 = cn2 = 0, not missing")
                ctx.cover("nan-baf-zero-cn")
            continue
        ctx.claim((not is_nan(cn1[i])) and (not is_nan(cn2[i])), "cn1/cn2 present where a BAF is present")
        if is_nan(cn1[i]) or is_nan(cn2[i]):
            continue
        ctx.claim(cn1[i] + cn2[i] == cn[i], "cn1 + cn2 = cn")
        ctx.claim(And(cn1[i] >= 0, cn1[i] <= cn[i], cn2[i] >= 0, cn2[i] <= cn[i]), "0 <= cn1, cn2 <= cn")
        ctx.claim(cn1[i] >= cn2[i], "cn1 is the major allele (cn1 >= cn2)") if False else None
        ctx.cover("split", cn[i] >= 2)
        ctx.cover("clipped", cn1[i] == cn[i])


def _step_direct_cfgs():
    out = []
    for ploidy in range(1, 7):
        for hapx in (False, True):
            for k in (1, 2, 3, 4):
                naming = "chr" if (ploidy + k) % 2 else "plain"
                c = {"ploidy": ploidy, "hapx": hapx, "naming": naming, "k": k, "classes": ["auto", "x", "y"]}
                if k == 4 and ploidy > 3:
                    c["tier"] = "thorough"
                out.append(c)
            for k in (6, 8, 12):
                for cls in ("auto", "x", "y"):
                    out.append({"ploidy": ploidy, "hapx": hapx, "naming": "chr", "k": k, "classes": [cls], "tier": "thorough"})
    return out


def _step_call_cfgs():
    out = []
    for ploidy in range(1, 7):
        for hapx in (False, True):
            for naming in ("chr", "plain"):
                out.append({"ploidy": ploidy, "hapx": hapx, "naming": naming, "thresholds": None})
            out.append({"ploidy": ploidy, "hapx": hapx, "naming": "chr", "thresholds": [-0.4, 0.3]})
            out.append({"ploidy": ploidy, "hapx": hapx, "naming": "plain", "thresholds": [-2.0, -1.0, -0.5, 0.0, 0.25, 0.5, 1.0], "tier": "thorough"})
            for nr in (0, 1, 2):
                out.append({"ploidy": ploidy, "hapx": hapx, "naming": "chr", "thresholds": None, "nan_row": nr})
    for ploidy in (2, 3):
        out.append({"ploidy": ploidy, "hapx": True, "naming": "chr", "thresholds": None, "classes": ["x", "auto", "x"]})
        out.append({"ploidy": ploidy, "hapx": False, "naming": "plain", "thresholds": None, "classes": ["auto", "y", "auto"], "nan_row": 2})
    return out


def _mono_cfgs():
    out = []
    for ploidy in range(1, 7):
        for hapx in (False, True):
            for cls in ("auto", "x", "y"):
                for naming in ("chr", "plain"):
                    c = {"ploidy": ploidy, "hapx": hapx, "naming": naming, "cls": cls}
                    if naming == "plain" and cls == "auto":
                        c["tier"] = "thorough"
                    out.append(c)
    return out


def _allelic_cfgs():
    out = []
    for ploidy in (1, 2, 3, 4, 5, 6):
        for hapx in (False, True):
            for pm in (None, 0.3, 0.6, 0.95):
                for nan_baf in (None, 0, 1):
                    for method in ("threshold", "clonal"):
                        c = {"ploidy": ploidy, "hapx": hapx, "naming": "chr", "purity": pm, "nan_baf": nan_baf, "method": method}
                        if ploidy > 3 or pm == 0.95 or (method == "clonal" and pm is None and nan_baf is not None):
                            c["tier"] = "thorough"
                        out.append(c)
    return out


HARNESSES = [
    Harness("step_direct", h_step_direct, _step_direct_cfgs(), covers=["at-a-threshold", "above-last", "rescaled"], wall_s=200, keep_uf=True),
    Harness("step_call", h_step_call, _step_call_cfgs(), covers=["at-a-threshold", "nan-row"], wall_s=200, keep_uf=True),
    Harness("monotone", h_monotone, _mono_cfgs(), covers=["crosses-last-threshold", "both-above"], wall_s=200, keep_uf=True),
    Harness("allelic", h_allelic, _allelic_cfgs(), covers=["nan-baf-positive-cn", "nan-baf-zero-cn", "split", "clipped"], wall_s=200, keep_uf=False),
]
