"""Helpers shared by the property harnesses."""
import math

import numpy as np
import pandas as pd

from symx.api import *


def obj_col(values):
    """An object-dtype column when it holds proxies, a plain one otherwise."""
    values = list(values)
    if any(isinstance(v, Sym) for v in values):
        arr = np.empty(len(values), dtype=object)
        for i, v in enumerate(values):
            arr[i] = v
        return arr
    return np.asarray(values)


def make_df(columns):
    """DataFrame from {name: list}; proxy columns become object dtype."""
    return pd.DataFrame({k: obj_col(v) for k, v in columns.items()})


def make_cna(columns, meta=None, sort=False):
    from cnvlib.cnary import CopyNumArray as CNA

    cna = CNA(make_df(columns), meta or {"sample_id": "S"})
    if sort:
        cna.sort()
    return cna


def make_ga(columns, meta=None, sort=False):
    from skgenome import GenomicArray as GA

    ga = GA(make_df(columns), meta)
    if sort:
        ga.sort()
    return ga


def col(obj, name):
    """Column of a GenomicArray / DataFrame as a python list."""
    df = getattr(obj, "data", obj)
    return list(df[name].values)


def is_nan(x):
    return isinstance(x, (float, np.floating)) and x != x


def is_intlike(x):
    return isinstance(x, (SymInt, int, np.integer)) and not isinstance(x, (bool, np.bool_))


def concrete(ctx):
    return ctx.mode == "concrete"


def defined_by_exp2(ctx, name, ratio):
    """A real L with 2**L == ratio (ratio > 0 must be assumed by the caller).
    Symbolic mode: fresh variable tied to the uninterpreted exp2; concrete
    replay: computed in float from the free inputs (DESIGN.md 2.6)."""
    if concrete(ctx):
        return math.log2(ratio)
    L = ctx.real(name)
    ctx.assume(exp2(L) == ratio)
    return L


def wmean(xs, ws):
    return Sum([x * w for x, w in zip(xs, ws)]) / Sum(ws)
