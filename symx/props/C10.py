"""C10 -- results depend only on arguments (not workers, RNG, history); inputs untouched."""
import copy
import itertools
import sys

import numpy as np
import pandas as pd

from symx.api import *
from symx.props.common import *
from symx import rt

from skgenome import GenomicArray as GA
from cnvlib import call, segmentation, segmetrics, reports, bintest, export, target, antitarget, fix, core, descriptives
from cnvlib.cnary import CopyNumArray as CNA

PROPERTY = "C10"
FUNCTIONS = [
    "cnvlib.call.do_call (each method, filter lists), cnvlib.segmentation.do_segmentation(none), cnvlib.segmetrics.do_segmetrics, cnvlib.reports.do_genemetrics/do_breaks, cnvlib.bintest.do_bintest",
    "cnvlib.export.export_bed/segments2vcf, cnvlib.target.do_target, cnvlib.antitarget.do_antitarget, cnvlib.fix.do_fix, CopyNumArray.center_all (on a copy)/by_gene, GenomicArray.merge/flatten/subtract/intersection/subdivide/resize_ranges/by_arm/shuffle",
    "cnvlib.fix.center_by_window, cnvlib.segmetrics.confidence_interval_bootstrap (random draws), cnvlib.core.ensure_path",
]
BOUNDS = {
    "frame condition": "one call (and one repetition) of each API on symbolic tables of 2-4 rows: every cell of every argument table, every list/dict argument, every mutable module-level object and function default of cnvlib/skgenome is compared before/after; an unchanged frame plus a result that is a function of the arguments covers call sequences of any length",
    "random generators": "np.random is replaced by a stub whose draws are arbitrary (solver-chosen permutations / index vectors) until the code seeds it; the result must equal the result under the real generator",
    "writes": "k <= 3 writes to one path with a solver-chosen set of pre-existing files name, name.1 .. name.3 (dictionary file system)",
}
NOT_COVERED = ["real multi-process execution (1 vs N workers): the pool is not exercised; the serial code path is what is checked", "python's `random` module (not used by the listed APIs)", "export seg/theta, metrics"]
STUBS = ["np.random -> arbitrary draws unless seeded (seeded draws come from numpy's own RandomState with that seed)", "os.path.isfile/isdir/rename/makedirs -> dictionary file system", "scipy norm.cdf -> uninterpreted Phi (bintest)", "descriptives.biweight_midvariance -> constant 0.3 (do_fix)"]
ASSUMPTIONS = ["the chromosome-label cache in an array's meta dict (chr_x, chr_y) may be filled in"]

M = 10**6


# ---------------------------------------------------------------- snapshots


def snap(x):
    if isinstance(x, GA):
        df = x.data
        return ("GA", list(df.columns), list(df.index), [list(df[c].values) for c in df.columns], {k: v for k, v in x.meta.items() if k not in ("chr_x", "chr_y")})
    if isinstance(x, pd.DataFrame):
        return ("DF", list(x.columns), list(x.index), [list(x[c].values) for c in x.columns])
    if isinstance(x, (list, tuple)):
        return (type(x).__name__, [snap(e) for e in x])
    if isinstance(x, dict):
        return ("dict", {k: snap(v) for k, v in x.items()})
    return ("val", x)


def same(a, b):
    """Structural equality; cells compared as terms (symbolic equality) or values."""
    if isinstance(a, tuple) and isinstance(b, tuple) and a and b and isinstance(a[0], str) and a[0] == b[0]:
        if a[0] in ("GA", "DF"):
            if a[1] != b[1] or a[2] != b[2]:
                return False
            conds = []
            for ca, cb in zip(a[3], b[3]):
                if len(ca) != len(cb):
                    return False
                for x, y in zip(ca, cb):
                    conds.append(cell_eq(x, y))
            ok = And(*conds) if conds else True
            if a[0] == "GA" and a[4] != b[4]:
                return False
            return ok
        if a[0] in ("list", "tuple"):
            return len(a[1]) == len(b[1]) and And(*[same(x, y) for x, y in zip(a[1], b[1])]) if a[1] else len(b[1]) == 0
        if a[0] == "dict":
            return a[1].keys() == b[1].keys() and And(*[same(a[1][k], b[1][k]) for k in a[1]])
        return cell_eq(a[1], b[1])
    return False


def cell_eq(x, y):
    if x is y:
        return True
    if isinstance(x, Sym) or isinstance(y, Sym):
        return x == y
    if is_nan(x) and is_nan(y):
        return True
    if isinstance(x, (float, np.floating)) and isinstance(y, (float, np.floating)):
        return bool(approx(x, y))
    try:
        return bool(x == y)
    except Exception:
        return False


def module_state():
    out = {}
    for name, mod in list(sys.modules.items()):
        if not (name.startswith("cnvlib") or name.startswith("skgenome")) or mod is None:
            continue
        for k, v in list(vars(mod).items()):
            if k.startswith("__"):
                continue
            if isinstance(v, (list, dict, set, tuple, str, int, float, bool, frozenset)) and not isinstance(v, type):
                out[f"{name}.{k}"] = repr(v)[:2000]
            if callable(v) and getattr(v, "__module__", None) == name and getattr(v, "__defaults__", None):
                out[f"{name}.{k}.__defaults__"] = repr(v.__defaults__)[:500]
    return out


# ---------------------------------------------------------------- argument builders


def bins(ctx, n=3, extra=()):
    chroms = (["chr1"] * n)[:n]
    cols = {"chromosome": chroms, "start": [], "end": [], "gene": ["A", "A", "B", "Antitarget"][:n], "log2": [], "depth": [], "weight": []}
    prev = None
    for i in range(n):
        s = ctx.int(f"s{i}", 0, M)
        e = ctx.int(f"e{i}", 0, M)
        ctx.assume(s < e)
        if prev is not None:
            ctx.assume(prev <= s)
        prev = e
        cols["start"].append(s)
        cols["end"].append(e)
        cols["log2"].append(ctx.real(f"l{i}", -4, 4))
        cols["depth"].append(ctx.real(f"d{i}", 1, 100))
        cols["weight"].append([0.75, 0.5, 0.9375, 0.5][i])
    for name in extra:
        if name == "cn":
            cols["cn"] = [ctx.int(f"cn{i}", 0, 8) for i in range(n)]
        elif name == "ci":
            cols["ci_lo"] = [ctx.real(f"lo{i}", -5, 5) for i in range(n)]
            cols["ci_hi"] = [cols["ci_lo"][i] + ctx.real(f"wd{i}", 0, 3) for i in range(n)]
        elif name == "probes":
            cols["probes"] = [ctx.int(f"p{i}", 1, 100) for i in range(n)]
    return make_cna(cols, {"sample_id": "S"})


def seg_of(ctx, cna):
    d = cna.data
    return make_cna({"chromosome": ["chr1"], "start": [d["start"].iat[0]], "end": [d["end"].iat[-1]], "gene": ["-"], "log2": [ctx.real("segl", -3, 3)], "probes": [len(d)], "weight": [2.0]}, {"sample_id": "S"})


def api_call(ctx, name):
    """Returns (args: list of objects that must stay unchanged, thunk)."""
    if name.startswith("call:"):
        _, method, flt = name.split(":")
        filters = [f for f in flt.split(",") if f]
        cna = bins(ctx, 2 if "ci" in filters else 3, extra=("ci", "probes") if "ci" in filters else ("probes",))
        return [cna, filters], lambda: call.do_call(cna, None, method, 2, None, False, True, None, filters)
    if name == "segment":
        cna = bins(ctx, 3)
        return [cna], lambda: segmentation.do_segmentation(cna, "none", skip_low=True, skip_outliers=0)
    if name == "segmetrics":
        cna = bins(ctx, 3)
        seg = seg_of(ctx, cna)
        loc, spr, itv = ["mean", "median"], ["stdev", "mad"], ["pi", "ci"]
        return [cna, seg, loc, spr, itv], lambda: segmetrics.do_segmetrics(cna, seg, loc, spr, itv, 0.5, 4)
    if name == "genemetrics":
        cna = bins(ctx, 3)
        seg = seg_of(ctx, cna)
        seg["cn"] = 4  # a column the bins do not have (as after `call`)
        return [cna, seg], lambda: reports.do_genemetrics(cna, seg, 0.1, 1, False, False, True)
    if name == "breaks":
        cna = bins(ctx, 4)
        d = cna.data
        seg = make_cna({"chromosome": ["chr1", "chr1"], "start": [d["start"].iat[0], d["start"].iat[2]], "end": [d["start"].iat[2], d["end"].iat[3]], "gene": ["-", "-"], "log2": [ctx.real("a", -3, 3), ctx.real("b", -3, 3)]})
        return [cna, seg], lambda: reports.do_breaks(cna, seg, 1)
    if name == "bintest":
        cna = bins(ctx, 2)
        seg = seg_of(ctx, cna)

        def run():
            from symx.props.C17 import _NormStub

            orig = bintest.norm
            bintest.norm = _NormStub(orig)
            try:
                return bintest.do_bintest(cna, seg, 0.5, False)
            finally:
                bintest.norm = orig

        return [cna, seg], run
    if name == "export_bed":
        cna = bins(ctx, 3, extra=("cn", "probes"))
        return [cna], lambda: export.export_bed(cna, 2, False, None, True, "lbl", "variant")
    if name == "export_vcf":
        cna = bins(ctx, 2, extra=("cn", "probes"))
        return [cna], lambda: list(export.segments2vcf(cna, 2, False, None, True))
    if name == "center_all":
        cna = bins(ctx, 3)

        def run():
            c2 = cna.copy()
            c2.center_all()
            return c2

        return [cna], run
    if name == "by_gene":
        cna = bins(ctx, 4)
        return [cna], lambda: [(g, sub.data) for g, sub in cna.by_gene()]
    if name == "by_arm":
        cna = bins(ctx, 3)
        return [cna], lambda: [(c, sub.data) for c, sub in cna.by_arm()]
    if name == "by_arm_split":
        # small thresholds, so that a centromere-sized gap is looked for (and may be found) on 4 bins
        cna = bins(ctx, 4)
        return [cna], lambda: [(c, sub.data) for c, sub in cna.by_arm(min_gap_size=10, min_arm_bins=1)]
    if name == "export_vcf_bins":
        # the optional bin-level argument of export_vcf (confidence intervals of the breakpoints)
        b = bins(ctx, 3)
        seg = seg_of(ctx, b)
        seg["cn"] = 4
        return [seg, b], lambda: export.export_vcf(seg, 2, False, None, True, "S", b)[1]
    if name in ("merge", "flatten", "subtract", "intersection", "subdivide", "resize"):
        a = bins(ctx, 2)
        rows = []
        for i in range(2):
            s = ctx.int(f"bs{i}", 0, M)
            e = ctx.int(f"be{i}", 0, M)
            ctx.assume(s < e)
            rows.append(("chr1", s, e))
        b = GA.from_rows(rows)
        b.sort()
        f = {
            "merge": lambda: a.merge(),
            "flatten": lambda: a.flatten(),
            "subtract": lambda: a.subtract(b),
            "intersection": lambda: a.intersection(b, mode="trim"),
            "subdivide": lambda: GA.from_rows([("chr1", 0, 20), ("chr1", 30, 41)]).subdivide(7, 2),
            "resize": lambda: a.resize_ranges(ctx.int("bp", -100, 100) if name == "resize" else 0),
        }[name]
        return [a, b], f
    if name == "target":
        rows = []
        for i in range(2):
            s_ = ctx.int(f"s{i}", 0, 200)
            e_ = ctx.int(f"e{i}", 0, 200)
            ctx.assume(s_ <= e_)
            rows.append(("chr1", s_, e_, ["ref|G1,mRNA|AB1", "ref|G1"][i]))
        a = GA.from_rows(rows, columns=["chromosome", "start", "end", "gene"])
        a.sort()
        return [a], lambda: target.do_target(a, None, True, True, 40)
    if name == "antitarget":
        a = GA.from_rows([("chr1", ctx.int("ts", 0, 3000), ctx.int("tw", 1, 500), "G")], columns=["chromosome", "start", "end", "gene"])
        a.data["end"] = a.data["start"] + a.data["end"]
        acc = GA.from_rows([("chr1", 0, 6000)])
        return [a, acc], lambda: antitarget.do_antitarget(a, acc, 1000, 300)
    if name in ("fix", "fix_unsorted"):
        tb = [("chr1", 100, 300, "A"), ("chr1", 300, 700, "A"), ("chr2", 50, 250, "B")]
        if name == "fix_unsorted":
            # rows not in genomic order: do_fix sorts internally, the caller's table must stay as it was
            tb = [tb[2], tb[1], tb[0]]
        ab = [("chr1", 1000, 9000, "Antitarget")]

        def mk(bs, pre):
            return make_cna({"chromosome": [b[0] for b in bs], "start": [b[1] for b in bs], "end": [b[2] for b in bs], "gene": [b[3] for b in bs], "log2": [ctx.real(f"{pre}{i}", -3, 3) for i in range(len(bs))], "depth": [10.0] * len(bs)}, {"sample_id": "S"})

        t, a = mk(tb, "t"), mk(ab, "a")
        allb = tb + ab
        ref = make_cna({"chromosome": [b[0] for b in allb], "start": [b[1] for b in allb], "end": [b[2] for b in allb], "gene": [b[3] for b in allb], "log2": [ctx.real(f"r{i}", 0.05, 0.95) for i in range(4)], "spread": [0.25, 0.5, 0.125, 0.75], "depth": [10.0] * 4}, {"sample_id": "ref"})
        ref.sort()

        def run():
            real = descriptives.biweight_midvariance
            descriptives.biweight_midvariance = lambda a_, **k: 0.3
            try:
                return fix.do_fix(t, a, ref, None, False, False, False)
            finally:
                descriptives.biweight_midvariance = real

        return [t, a, ref], run
    raise KeyError(name)


def h_frame(ctx, api):
    args, thunk = api_call(ctx, api)
    before = [snap(a) for a in args]
    mods = module_state()
    def run():
        # an exception is an outcome like any other here: the frame must still be intact
        try:
            return thunk()
        except Exception as exc:
            return ("raised", type(exc).__name__)

    out1 = run()
    after = [snap(a) for a in args]
    for k, (b, a) in enumerate(zip(before, after)):
        ctx.claim(same(b, a), f"{api}: argument {k} is left unchanged")
    ctx.claim(module_state() == mods, f"{api}: no module-level state or function default is modified")
    # repetition (history independence: same arguments, same frame -> same result)
    out2 = run()
    ctx.claim(same(snap(out1), snap(out2)), f"{api}: repeating the call returns the same table")
    ctx.cover("raised", isinstance(out1, tuple) and len(out1) == 2 and out1[0] == "raised")
    ctx.cover("reached")


# ---------------------------------------------------------------- random generators


class RngStub:
    """np.random whose state is unknown: until seed() is called every draw is an
    arbitrary (solver-chosen) outcome; after seed(s) draws are numpy's own for that seed."""

    def __init__(self, ctx):
        self.ctx, self.rs, self.k = ctx, None, 0

    def seed(self, s=None):
        self.rs = np.random.RandomState(s)

    def _perm(self, n):
        self.k += 1
        return list(self.ctx.choice(f"perm{self.k}", list(itertools.permutations(range(n)))))

    def permutation(self, x):
        if self.rs is not None:
            return self.rs.permutation(x)
        arr = np.arange(x) if isinstance(x, (int, np.integer)) else np.asarray(x)
        return arr[self._perm(len(arr))]

    def shuffle(self, arr):
        if self.rs is not None:
            return self.rs.shuffle(arr)
        arr[:] = arr[self._perm(len(arr))]

    def randint(self, lo, hi=None, size=None):
        if self.rs is not None:
            return self.rs.randint(lo, hi, size=size)
        self.k += 1
        v = self.ctx.choice(f"draw{self.k}", list(range(lo, hi)))
        return np.full(size, v, dtype=int)

    def randn(self, *shape):
        if self.rs is not None:
            return self.rs.randn(*shape)
        self.k += 1
        v = self.ctx.choice(f"noise{self.k}", [-1.0, 0.0, 1.5])
        return np.full(shape, v, dtype=float)

    def __getattr__(self, name):
        return getattr(np.random, name)


def h_rng(ctx, api):
    n = 4 if api == "center_by_window" else 3
    vals = [ctx.real(f"v{i}", -5, 5) for i in range(n)]

    def make():
        if api == "center_by_window":
            cna = make_cna({"chromosome": ["chr1"] * n, "start": [0, 10, 20, 30], "end": [10, 20, 30, 40], "gene": ["g"] * n, "log2": list(vals)})
            # tied covariate values: the order among ties is the shuffle's
            return lambda: list(fix.center_by_window(cna, 0.5, np.array([0.5, 0.5, 0.5, 0.25])).data["log2"])
        if api == "bootstrap":
            return lambda: list(segmetrics.confidence_interval_bootstrap(obj_col(vals), np.array([0.5, 1.0, 0.25]), 0.5, 4))
        if api == "bootstrap_smoothed":
            return lambda: list(segmetrics.confidence_interval_bootstrap(obj_col(vals), np.array([0.75, 0.9375, 0.4375]), 0.5, 4, True))
        cna = make_cna({"chromosome": ["chr1"] * n, "start": [0, 10, 20], "end": [10, 20, 30], "gene": ["g"] * n, "log2": list(vals)})

        def run():
            c2 = cna.copy()
            c2.shuffle()
            return list(c2.data["start"])

        return run

    stub = RngStub(ctx)
    rt.np.random = stub
    try:
        out_unknown_state = make()()
    except Exception as exc:
        claim_raised(ctx, f"{api}", exc)
        return
    finally:
        del rt.np.random
    np.random.seed(424242)  # some other state of the real generator
    out_real = make()()
    ctx.claim(len(out_unknown_state) == len(out_real) and And(*[cell_eq(a, b) for a, b in zip(out_unknown_state, out_real)]), f"{api}: the result is the same under any state of the global random generator")
    ctx.cover("reached")


def h_workers(ctx, method):
    """do_segmentation with 1 worker and with N: the same table.  The process pool is replaced by an
    in-process stand-in that honours its contract (ordered map, arguments handed over unchanged);
    what is decided is what each worker is asked to do -- the same bins, the same options."""
    from cnvlib import parallel

    n = 3
    cols = {"chromosome": ["chr1"] * n, "start": [0, 100, 200], "end": [100, 200, 300], "gene": ["A", "A", "B"], "log2": [ctx.real(f"l{i}", -4, 4) for i in range(n)], "depth": [10.0] * n, "weight": [ctx.real(f"w{i}", 0.01, 1) for i in range(n)]}
    cna = make_cna(cols, {"sample_id": "S"})

    class _Pool:
        def __enter__(self):
            return self

        def __exit__(self, *a):
            return False

        def map(self, fn, it):
            return [fn(x) for x in it]

    import contextlib

    @contextlib.contextmanager
    def pick(nprocs):
        yield (parallel.SerialPool() if nprocs == 1 else _Pool())

    orig = parallel.pick_pool
    parallel.pick_pool = pick
    try:
        one = segmentation.do_segmentation(cna, method, skip_low=False, skip_outliers=0, min_weight=0.3, processes=1)
        many = segmentation.do_segmentation(cna, method, skip_low=False, skip_outliers=0, min_weight=0.3, processes=3)
    except Exception as exc:
        claim_raised(ctx, "do_segmentation", exc)
        return
    finally:
        parallel.pick_pool = orig
    ctx.observe("n", len(one))
    ctx.claim(len(one) == len(many), "the same number of segments for 1 and N workers")
    if len(one) != len(many):
        return
    for a, b in zip(one.data.itertuples(index=False), many.data.itertuples(index=False)):
        ctx.claim(a.chromosome == b.chromosome and And(a.start == b.start, a.end == b.end, a.probes == b.probes), "the same segments for 1 and N workers")
        ctx.claim(And(cell_eq(a.log2, b.log2), cell_eq(a.weight, b.weight)), "the same segment values for 1 and N workers (same options reach every worker)")
    ctx.cover("a bin below min_weight", Or(*[w < 0.3 for w in cols["weight"]]))
    ctx.cover("reached")


# ---------------------------------------------------------------- ensure_path


class FakeOS:
    def __init__(self, files):
        self.files = files
        self.path = self

    def normpath(self, p):
        return p

    def dirname(self, p):
        return p.rsplit("/", 1)[0] if "/" in p else ""

    def abspath(self, p):
        return p

    def isdir(self, p):
        return True

    def isfile(self, p):
        return p in self.files

    def rename(self, a, b):
        self.files[b] = self.files.pop(a)

    def makedirs(self, p):
        pass


def h_ensure_path(ctx, k):
    name = "out/sample.cns"
    files = {}
    if ctx.choice("has0", [0, 1]):
        files[name] = "old0"
    for j in (1, 2, 3):
        if ctx.choice(f"has{j}", [0, 1]):
            files[f"{name}.{j}"] = f"old{j}"
    pre = dict(files)
    orig = core.os
    core.os = FakeOS(files)
    try:
        for w in range(k):
            core.ensure_path(name)
            files[name] = f"new{w}"
    except Exception as exc:
        claim_raised(ctx, "ensure_path", exc)
        return
    finally:
        core.os = orig
    ctx.claim(len(files) == len(pre) + k - (0 if name in pre else 0) if name in pre else len(files) == len(pre) + k, "k writes to one path leave k more files")
    ctx.claim(sorted(files.values()) == sorted(list(pre.values()) + [f"new{w}" for w in range(k)]), "every pre-existing file and every earlier write is kept intact under some name")
    ctx.claim(files.get(name) == f"new{k - 1}", "the path itself holds the latest write")
    ctx.cover("gap in the suffixes", (f"{name}.2" in pre) and (f"{name}.1" not in pre))
    ctx.cover("nothing pre-existing", not pre)


APIS = [
    "call:threshold:", "call:clonal:", "call:none:", "call:threshold:ci,cn", "call:threshold:cn", "call:clonal:ampdel", "segment", "segmetrics", "genemetrics", "breaks", "bintest",
    "export_bed", "export_vcf", "center_all", "by_gene", "by_arm", "merge", "flatten", "subtract", "intersection", "subdivide", "resize", "target", "antitarget", "fix", "fix_unsorted", "by_arm_split", "export_vcf_bins",
]

HARNESSES = [
    Harness("frame", h_frame, [{"api": a} for a in APIS], covers=["reached"], wall_s=300, thorough_wall_s=1500, keep_uf=True, nonce_fork=False),
    Harness("rng_independence", h_rng, [{"api": a} for a in ("center_by_window", "bootstrap", "bootstrap_smoothed", "shuffle")], covers=["reached"], wall_s=300),
    Harness("workers", h_workers, [{"method": "none"}], covers=["reached", "a bin below min_weight"], wall_s=300),
    Harness("ensure_path", h_ensure_path, [{"k": 1}, {"k": 2}, {"k": 3}], covers=["gap in the suffixes", "nothing pre-existing"], wall_s=120),
]
