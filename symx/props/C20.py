"""C20 -- exports state exactly the calls they were given."""
import io

import numpy as np
import pandas as pd

from symx.api import *
from symx.props.common import *
from symx.props.C01 import oracle_rx, in_par, PAR, MAXC

from cnvlib import export, call
from skgenome.tabio import seg as segio

PROPERTY = "C20"
FUNCTIONS = [
    "cnvlib.export.export_bed/export_vcf/segments2vcf/export_seg/_load_seg_dframe_id/merge_samples/fmt_cdt/fmt_jtv/export_nexus_basic",
    "cnvlib.call.absolute_expect/absolute_pure/absolute_dataframe/get_as_dframe_and_set_reference_and_expect_copies",
    "skgenome.tabio.seg.write_seg/format_seg/create_chrom_ids",
    "skgenome.rangelabel.to_label, skgenome.gary.GenomicArray.labels",
]
BOUNDS = {
    "segments": "3 rows (autosome, X, Y; with a PAR genome: autosome + X or Y row with symbolic coordinates)",
    "values": "start (0 reachable), end, probes symbolic integers; cn symbolic 0..12, or absent with symbolic log2 (cn = round(r*2^log2))",
    "config": "ploidy 1..6 x sample sex x reference sex x naming x genome (none, grch37, grch38) x show mode",
    "samples": "1-3 samples for seg/jtv/cdt, incl. mismatching bins and duplicate sample ids",
}
NOT_COVERED = ["the digits of emitted floats (FOLD_CHANGE, seg.mean: symbolic reals are rendered as opaque tokens)", "CIPOS/CIEND fields (not in the statement)", "gistic/theta/nexus-ogt exports (not in the statement)"]
STUBS = ["cnvlib.export.read_cna returns the harness's in-memory arrays (file reading is C08's subject)"]
ASSUMPTIONS = []

M = 3 * 10**8


def pint(ctx, text):
    v = ctx.parse_int(text) if hasattr(ctx, "parse_int") else None
    return v if v is not None else int(text)


def seg_table(ctx, naming, genome, symrow, with_cn, ploidy, hapx):
    pre = "chr" if naming == "chr" else ""
    if genome:
        chroms = [pre + "1", pre + symrow]
        classes = ["auto", "sym" + symrow]
    else:
        chroms = [pre + "1", pre + "X", pre + "Y"]
        classes = ["auto", "x", "y"]
    n = len(chroms)
    starts, ends, probes = [], [], []
    for i in range(n):
        if genome and i == 0:
            # with a genome only the X/Y row is symbolic: the autosomal row (which fixes the
            # naming style) is a concrete gain, so that the PAR case split is not multiplied
            starts.append(1000)
            ends.append(2000)
            probes.append(10)
            continue
        s = ctx.int(f"s{i}", 0, M)
        e = ctx.int(f"e{i}", 0, M)
        ctx.assume(s < e)
        starts.append(s)
        ends.append(e)
        probes.append(ctx.int(f"p{i}", 1, 5000))
    cols = {"chromosome": chroms, "start": starts, "end": ends, "gene": [f"g{i}" for i in range(n)], "log2": None, "probes": probes}
    if with_cn:
        cols["log2"] = [0.25, -1.0, 0.5][:n]
        cols["cn"] = [(ploidy + 1) if (genome and i == 0) else ctx.int(f"cn{i}", 0, 12) for i in range(n)]
    else:
        cols["log2"] = [1.0 if (genome and i == 0) else ctx.real(f"l{i}", -6, 4) for i in range(n)]
    # resolve PAR class of the symbolic row
    out_classes = []
    for c, s, e in zip(classes, starts, ends):
        if c == "symX":
            out_classes.append("parx" if in_par(genome, "X", s, e) else "x")
        elif c == "symY":
            out_classes.append("pary" if in_par(genome, "Y", s, e) else "y")
        else:
            out_classes.append(c)
    return cols, out_classes


def ncopies_of(cols, classes, i, ploidy, hapx, female, via):
    """cn given, or round(r*2^log2) with r as the exporter's path defines it."""
    if "cn" in cols:
        return cols["cn"][i]
    cls = classes[i]
    if via == "pure":  # export_bed: absolute_pure ignores the PAR genome
        cls = {"parx": "x", "pary": "y"}.get(cls, cls)
    r, _ = oracle_rx(cls, ploidy, hapx, female)
    v = r * exp2(cols["log2"][i])
    return round(v) if not isinstance(v, Sym) else v.__round__()


def h_bed(ctx, ploidy, hapx, female, naming, genome, show, with_cn, symrow=None):
    cols, classes = seg_table(ctx, naming, genome, symrow, with_cn, ploidy, hapx)
    segs = make_cna({k: v for k, v in cols.items()})
    try:
        out = export.export_bed(segs, ploidy, hapx, genome, female, "lbl", show)
    except Exception as exc:
        claim_raised(ctx, "export_bed", exc)
        return
    rows = list(out.itertuples(index=False))
    ctx.observe("n", len(rows))
    got_idx = []
    k = 0
    for i in range(len(classes)):
        nc = ncopies_of(cols, classes, i, ploidy, hapx, female, "pure")
        _, x = oracle_rx(classes[i], ploidy, hapx, female)
        if show == "ploidy":
            want = nc != ploidy
        elif show == "variant":
            want = nc != x
        else:
            want = True
        want = bool(want)
        if want:
            ctx.claim(k < len(rows), f"bed [{show}]: a segment that must be listed is listed")
            if k < len(rows):
                r = rows[k]
                ctx.claim(And(r.chromosome == cols["chromosome"][i], r.start == cols["start"][i], r.end == cols["end"][i]), "bed: 0-based coordinates of the segment, unchanged")
                ctx.claim(r.ncopies == nc, "bed: the integer copy number of the segment")
                ctx.claim(r.label == "lbl", "bed: label")
            k += 1
            ctx.cover(f"listed [{show}]")
        else:
            ctx.cover(f"skipped [{show}]")
    ctx.claim(k == len(rows), f"bed [{show}]: no other segment is listed")


def parse_info(ctx, info):
    d = {}
    for f in info.split(";"):
        if "=" in f:
            a, b = f.split("=", 1)
            d[a] = b
        else:
            d[f] = True
    return d


def h_vcf(ctx, ploidy, hapx, female, naming, genome, with_cn, symrow=None):
    cols, classes = seg_table(ctx, naming, genome, symrow, with_cn, ploidy, hapx)
    segs = make_cna({k: v for k, v in cols.items()}, {"sample_id": "S1"})
    try:
        header, body = export.export_vcf(segs, ploidy, hapx, genome, female)
    except Exception as exc:
        claim_raised(ctx, "export_vcf", exc)
        return
    lines = body.rstrip("\n").split("\n")
    ctx.claim(lines[0].startswith("#CHROM\tPOS") and lines[0].endswith("\tS1"), "vcf: column header ends with the sample id")
    recs = [l.split("\t") for l in lines[1:] if l]
    ctx.observe("n", len(recs))
    k = 0
    for i in range(len(classes)):
        nc = ncopies_of(cols, classes, i, ploidy, hapx, female, "clonal")
        _, x = oracle_rx(classes[i], ploidy, hapx, female)
        if bool(nc != x):
            ctx.claim(k < len(recs), "vcf: a segment whose copy number differs from the expected one gets a record")
            if k >= len(recs):
                k += 1
                continue
            r = recs[k]
            info = parse_info(ctx, r[7])
            loss = bool(nc < x)
            ctx.claim(r[0] == cols["chromosome"][i], "vcf: CHROM")
            ctx.claim(pint(ctx, r[1]) == If(cols["start"][i] == 0, 1, cols["start"][i]), "vcf: POS = start (1 where start is 0)")
            ctx.claim(pint(ctx, info["END"]) == cols["end"][i], "vcf: END = end")
            ctx.claim(info["SVTYPE"] == ("DEL" if loss else "DUP") and r[4] == ("<DEL>" if loss else "<DUP>"), "vcf: SVTYPE/ALT are DEL below and DUP above the expected copy number")
            ln = cols["end"][i] - cols["start"][i]
            ctx.claim(pint(ctx, info["SVLEN"]) == (-ln if loss else ln), "vcf: SVLEN = +-(end - start) with the matching sign")
            if not loss:
                fmt = r[8].split(":")
                ctx.claim("CN" in fmt, "vcf: gains carry CN in FORMAT")
                if "CN" in fmt:
                    ctx.claim(pint(ctx, r[9].split(":")[fmt.index("CN")]) == nc, "vcf: the sample field carries the copy number for gains")
                ctx.cover("gain record")
            else:
                ctx.cover("loss record")
            ctx.cover("start 0", cols["start"][i] == 0)
            k += 1
        else:
            ctx.cover("neutral skipped")
    ctx.claim(k == len(recs), "vcf: no record for segments at the expected copy number")


def h_seg(ctx, nsamples, chrom_ids, dup=False, no_probes=()):
    """no_probes: indices of samples whose table has no probes column (e.g. imported segments): the
    other samples still get their probe counts."""
    tables, ids, fnames = {}, [], []
    allcols = []
    for k in range(nsamples):
        n = 2
        chroms = ["chr1", "chrX"] if k % 2 == 0 else ["chr2", "chr2"]
        cols = {"chromosome": chroms, "start": [], "end": [], "gene": ["-"] * n, "log2": [ctx.real(f"m{k}_{i}", -5, 5) for i in range(n)], "probes": []}
        for i in range(n):
            s = ctx.int(f"s{k}_{i}", 0, M)
            e = ctx.int(f"e{k}_{i}", 0, M)
            ctx.assume(s < e)
            cols["start"].append(s)
            cols["end"].append(e)
            cols["probes"].append(ctx.int(f"p{k}_{i}", 1, 5000))
        if k in no_probes:
            del cols["probes"]
        sid = "S0" if dup and k > 0 else f"S{k}"
        fname = f"sample{k}.cns"
        tables[fname] = make_cna(cols, {"sample_id": sid})
        ids.append(sid)
        fnames.append(fname)
        allcols.append(cols)
    orig = export.read_cna
    export.read_cna = lambda fname, *a, **kw: tables[fname]
    try:
        out = export.export_seg(fnames, chrom_ids)
    except Exception as exc:
        claim_raised(ctx, "export_seg", exc)
        return
    finally:
        export.read_cna = orig
    names = list(out.columns)
    ctx.claim(names[:4] == ["ID", "chrom", "loc.start", "loc.end"] and "seg.mean" in names and (len(no_probes) == nsamples or "num.mark" in names), "seg: the SEG columns are present")
    if not (names[:4] == ["ID", "chrom", "loc.start", "loc.end"] and "seg.mean" in names and (len(no_probes) == nsamples or "num.mark" in names)):
        return
    order = ["ID", "chrom", "loc.start", "loc.end", "num.mark", "seg.mean"]
    rows = [tuple((rec[c] if c in names else None) for c in order) for rec in out.to_dict("records")]
    ctx.observe("n", len(rows))
    ctx.claim(len(rows) == 2 * nsamples, "seg: one row per segment per sample")
    if len(rows) != 2 * nsamples:
        return
    first_chroms = list(dict.fromkeys(allcols[0]["chromosome"]))
    for k in range(nsamples):
        for i in range(2):
            r = rows[2 * k + i]
            c = allcols[k]
            ctx.claim(r[0] == ids[k], "seg: rows are listed under their sample ID")
            ctx.claim(And(r[2] == c["start"][i] + 1, r[3] == c["end"][i]), "seg: 1-based start, end")
            if "probes" in c:
                ctx.claim(r[4] == c["probes"][i], "seg: probe count")
            ctx.claim(approx(r[5], c["log2"][i]), "seg: mean")
            ch = c["chromosome"][i]
            if chrom_ids and ch in first_chroms:
                ctx.claim(r[1] == first_chroms.index(ch) + 1, "seg: chromosome ids number the first sample's chromosomes in order")
            else:
                ctx.claim(r[1] == ch, "seg: chromosome name")
    ctx.cover("start 0", Or(*[c["start"][0] == 0 for c in allcols]))


def h_merge(ctx, nsamples, mismatch, dup, fmt):
    """merge_samples + fmt_cdt / fmt_jtv: one row per bin, each sample's log2 in its own column."""
    n = 2
    base = {"chromosome": ["chr1", "chr2"], "start": [], "end": [], "gene": ["A", "B"]}
    for i in range(n):
        s = ctx.int(f"s{i}", 0, M)
        e = ctx.int(f"e{i}", 0, M)
        ctx.assume(s < e)
        base["start"].append(s)
        base["end"].append(e)
    tables, fnames, logs = {}, [], []
    for k in range(nsamples):
        cols = {kk: list(v) for kk, v in base.items()}
        if mismatch and k == nsamples - 1:
            d = ctx.int("delta", -5, 5)
            cols["end"][1] = cols["end"][1] + d
            ctx.assume(cols["end"][1] > cols["start"][1])
        cols["log2"] = [ctx.real(f"l{k}_{i}", -5, 5) for i in range(n)]
        logs.append(cols["log2"])
        sid = f"S{k}"
        if dup and k == nsamples - 1 and k > 0:
            sid = "S0" if dup is True else "S1"  # dup == "later": the last two samples share an id
        tables[f"f{k}.cnr"] = make_cna(cols, {"sample_id": sid})
        fnames.append(f"f{k}.cnr")
    orig = export.read_cna
    export.read_cna = lambda fname, *a, **kw: tables[fname]
    raised = None
    try:
        table = export.merge_samples(fnames)
        sample_ids = [tables[f].sample_id for f in fnames]
        header, rows = (export.fmt_cdt if fmt == "cdt" else export.fmt_jtv)(sample_ids, table)
        rows = list(rows)
    except ValueError as exc:
        raised = str(exc)
    except Exception as exc:
        claim_raised(ctx, f"merge_samples/{fmt}", exc)
        return
    finally:
        export.read_cna = orig
    must_refuse_bins = mismatch and nsamples > 1 and bool(tables[fnames[-1]].data["end"].iloc[1] != base["end"][1])
    must_refuse_dup = dup and nsamples > 1
    if raised is not None:
        ctx.claim(must_refuse_bins or must_refuse_dup, "merge refuses only inputs whose bins differ or whose sample ids repeat")
        ctx.cover("refused")
        return
    ctx.claim(not must_refuse_bins, "inputs whose bins differ are refused")
    ctx.claim(not must_refuse_dup, "duplicate sample ids are refused")
    if must_refuse_bins or must_refuse_dup:
        return
    data_rows = rows[2:] if fmt == "cdt" else rows
    ctx.claim(len(data_rows) == n, "one row per bin")
    ctx.claim(list(header[-nsamples:]) == [f"S{k}" for k in range(nsamples)] and all(len(tuple(r)) == len(header) for r in data_rows), "one column per sample, in order")
    for i, r in enumerate(data_rows[:n]):
        r = tuple(r)
        label = r[2] if fmt == "cdt" else r[1]
        chrom, rest = label.split(":", 1)
        coords, gene = rest.rsplit(":", 1)
        a, b = coords.split("-")
        ctx.claim(chrom == base["chromosome"][i] and gene == base["gene"][i], "row label names the bin's chromosome and gene")
        ctx.claim(And(pint(ctx, a) == base["start"][i], pint(ctx, b) == base["end"][i]), "row label carries the bin's coordinates")
        vals = r[-nsamples:]
        for k in range(nsamples):
            ctx.claim(approx(vals[k], logs[k][i]), "each sample's log2 sits in its own column")
    ctx.cover("merged")


def h_nexus(ctx):
    cols = {"chromosome": ["chr1", "chrX"], "start": [], "end": [], "gene": ["A", "B"], "log2": [ctx.real("l0", -5, 5), ctx.real("l1", -5, 5)]}
    for i in range(2):
        s = ctx.int(f"s{i}", 0, M)
        e = ctx.int(f"e{i}", 0, M)
        ctx.assume(s < e)
        cols["start"].append(s)
        cols["end"].append(e)
    cna = make_cna(cols)
    out = export.export_nexus_basic(cna)
    rows = list(out.itertuples(index=False))
    ctx.claim(len(rows) == 2, "nexus: one row per bin")
    for i, r in enumerate(rows):
        ctx.claim(And(r.start == cols["start"][i], r.end == cols["end"][i]), "nexus: bin coordinates")
        ctx.claim(approx(r.log2, cols["log2"][i]), "nexus: the sample's log2")
        chrom, coords = r.probe.split(":")
        a, b = coords.split("-")
        ctx.claim(chrom == cols["chromosome"][i] and And(pint(ctx, a) == cols["start"][i] + 1, pint(ctx, b) == cols["end"][i]), "nexus: the bin's label chrom:start+1-end")
    ctx.cover("reached")


def _call_cfgs(shows):
    out = []
    for ploidy in range(1, 7):
        for hapx in (False, True):
            for female in (False, True):
                for naming in ("chr", "plain"):
                    for genome in (None, "grch37", "grch38"):
                        for with_cn in (True, False):
                            for show in shows:
                                base = {"ploidy": ploidy, "hapx": hapx, "female": female, "naming": naming, "genome": genome, "with_cn": with_cn}
                                if show:
                                    base["show"] = show
                                quick = ploidy in (1, 2, 3) and (naming == "chr" or genome is None) and genome != "grch37" and (with_cn or ploidy == 2)
                                if genome and not (ploidy == 2 and (with_cn or female)):
                                    quick = False
                                if genome:
                                    if naming == "plain":
                                        continue
                                    for symrow in ("X", "Y"):
                                        c = dict(base, symrow=symrow)
                                        if not quick or ploidy == 3:
                                            c["tier"] = "thorough"
                                        out.append(c)
                                else:
                                    c = dict(base)
                                    if not quick:
                                        c["tier"] = "thorough"
                                    out.append(c)
    return out


HARNESSES = [
    Harness(
        "bed",
        h_bed,
        _call_cfgs(["all", "ploidy", "variant"]),
        covers=["listed [all]", "listed [ploidy]", "skipped [ploidy]", "listed [variant]", "skipped [variant]"],
        wall_s=240,
        thorough_wall_s=1200,
        keep_uf=True,
    ),
    Harness("vcf", h_vcf, _call_cfgs([None]), covers=["gain record", "loss record", "neutral skipped", "start 0"], wall_s=240, thorough_wall_s=1200, keep_uf=True, nonce_fork=False),
    Harness(
        "seg",
        h_seg,
        [{"nsamples": 1, "chrom_ids": False}, {"nsamples": 2, "chrom_ids": False}, {"nsamples": 2, "chrom_ids": True}, {"nsamples": 2, "chrom_ids": False, "dup": True}, {"nsamples": 2, "chrom_ids": False, "no_probes": [1]}, {"nsamples": 2, "chrom_ids": True, "no_probes": [0]}, {"nsamples": 1, "chrom_ids": False, "no_probes": [0]}, {"nsamples": 3, "chrom_ids": True, "tier": "thorough"}],
        covers=["start 0"],
        wall_s=240,
    ),
    Harness(
        "merge_samples",
        h_merge,
        [{"nsamples": ns, "mismatch": mm, "dup": dp, "fmt": fmt} for ns in (1, 2, 3) for mm in (False, True) for dp in (False, True, "later") for fmt in ("cdt", "jtv") if not (ns == 1 and (mm or dp)) and not (mm and dp) and not (dp == "later" and ns < 3)],
        covers=["refused", "merged"],
        wall_s=240,
    ),
    Harness("nexus_basic", h_nexus, [{}], covers=["reached"]),
]
