"""C07 -- range queries return exactly the overlapping / contained / clipped rows."""
import numpy as np

from symx.api import *
from symx.props.C06 import sym_rows, M

from skgenome import GenomicArray as GA

PROPERTY = "C07"
FUNCTIONS = [
    "skgenome.intersect.by_ranges/by_shared_chroms/iter_ranges/iter_slices/idx_ranges/_irange_simple/_irange_nested/into_ranges",
    "skgenome.gary.GenomicArray.by_ranges/in_range/in_ranges/intersection/iter_ranges_of/into_ranges",
    "skgenome.combiners.join_strings/first_of/make_const",
]
BOUNDS = {
    "coordinates": "symbolic integers 0 <= start < end <= 10^6 for table rows and queries",
    "rows": "quick: <= 2 table rows x <= 2 queries; thorough: 3 x 2 and 2 x 3",
    "chromosomes": "1-2; chromosome only in the table / only in the queries; single shared chromosome (fast path)",
    "modes": "outer, inner, trim; keep_empty on/off; starts/ends None for in_range",
}
NOT_COVERED = ["tables of more than 3 rows / more than 3 queries"]
STUBS = []
ASSUMPTIONS = ["both tables are sorted (built through the real GenomicArray.sort)"]


def mk(rows, ids, extra=None):
    """GenomicArray with an id in the gene column (and optional extra column), sorted."""
    cols = ["chromosome", "start", "end", "gene"]
    recs = [tuple(r) + (i,) for r, i in zip(rows, ids)]
    if extra is not None:
        cols.append(extra[0])
        recs = [r + (v,) for r, v in zip(recs, extra[1])]
    ga = GA.from_rows(recs, columns=cols)
    ga.sort()
    return ga


def hit(mode, t, q):
    """Oracle: table row t (chrom,start,end) is selected by query q."""
    if t[0] != q[0]:
        return False
    if mode == "inner":
        return And(t[1] >= q[1], t[2] <= q[2])
    return And(t[1] < q[2], t[2] > q[1])


def check_selection(ctx, table_rows, q, got, mode, what):
    """table_rows: sorted rows of the table (tuples with id at [3]); q: query row;
    got: returned rows (tuples).  Claims membership, order and clipping."""
    got_ids = [g[3] for g in got]
    ctx.claim(len(set(got_ids)) == len(got_ids), f"{what}: no row twice for one query")
    # order = table order
    pos = {r[3]: k for k, r in enumerate(table_rows)}
    ctx.claim(all(i in pos for i in got_ids) and [pos[i] for i in got_ids if i in pos] == sorted(pos[i] for i in got_ids if i in pos), f"{what}: rows in table order")
    for t in table_rows:
        o = hit(mode, t, q)
        if t[3] in got_ids:
            ctx.claim(o, f"{what} [{mode}]: every returned row satisfies the selection rule")
            g = got[got_ids.index(t[3])]
            if mode == "trim":
                ctx.claim(And(g[1] == Max2(t[1], q[1]), g[2] == Min2(t[2], q[2])), f"{what} [trim]: returned rows are clipped to the query")
            else:
                ctx.claim(And(g[1] == t[1], g[2] == t[2]), f"{what}: returned rows keep their coordinates")
            ctx.claim(g[0] == t[0], f"{what}: returned rows keep their chromosome")
        else:
            ctx.claim(Not(o), f"{what} [{mode}]: every row satisfying the selection rule is returned")


def rows_t(ga):
    return [tuple(r) for r in ga.data.itertuples(index=False)]


# ----------------------------------------------------------------------------


def h_by_ranges(ctx, t_chroms, q_chroms, mode, keep_empty, case=None):
    trows = sym_rows(ctx, "t", t_chroms)
    qrows = sym_rows(ctx, "q", q_chroms)
    apply_case(ctx, case)
    table = mk(trows, [f"r{i}" for i in range(len(trows))])
    queries = mk(qrows, [f"q{i}" for i in range(len(qrows))])
    T = rows_t(table)
    Q = rows_t(queries)
    try:
        res = [(tuple(b), rows_t(sub)) for b, sub in table.by_ranges(queries, mode=mode, keep_empty=keep_empty)]
    except Exception as exc:
        claim_raised(ctx, "by_ranges", exc)
        return
    ctx.observe("res", [[list(b[:3]), [list(r[:3]) for r in sub]] for b, sub in res])
    yielded = [b[3] for b, _ in res]
    ctx.claim(len(set(yielded)) == len(yielded), "by_ranges: each query yielded at most once")
    qpos = {q[3]: k for k, q in enumerate(Q)}
    ctx.claim([qpos[i] for i in yielded] == sorted(qpos[i] for i in yielded), "by_ranges: queries in order")
    for q in Q:
        any_hit = Or(*[hit("inner" if mode == "inner" else "outer", t, q) for t in T])
        if q[3] in yielded:
            b, sub = res[yielded.index(q[3])]
            ctx.claim(And(b[1] == q[1], b[2] == q[2]), "by_ranges: yielded query keeps its coordinates")
            check_selection(ctx, T, q, sub, mode, "by_ranges")
            if not keep_empty:
                ctx.claim(len(sub) > 0, "by_ranges: keep_empty=False yields no empty group")
        else:
            ctx.claim((not keep_empty), "by_ranges: keep_empty=True yields every query")
            ctx.claim(Not(any_hit), "by_ranges: a skipped query selects nothing")
    ctx.cover("some-hit", any(len(s) for _, s in res))
    ctx.cover("some-empty", any(len(s) == 0 for _, s in res) or len(res) < len(Q))
    ctx.cover("two-hits", any(len(s) >= 2 for _, s in res))
    if len(T) >= 2 and T[0][0] == T[1][0]:
        ctx.cover("nested-table-rows", T[1][2] < T[0][2])


def _br_cfgs():
    c1, c2 = "chr1", "chr2"
    cfgs = []
    lay = [([c1], [c1]), ([c1, c1], [c1]), ([c1], [c1, c1]), ([c1, c2], [c1]), ([c1], [c1, c2]), ([c1], [c2])]
    for mode in ("outer", "inner", "trim"):
        for ke in (True, False):
            for t, q in lay:
                cfgs.append({"t_chroms": t, "q_chroms": q, "mode": mode, "keep_empty": ke})
            extra = {} if (ke or mode == "outer") else {"tier": "thorough"}
            cfgs += split_cases(
                dict({"t_chroms": [c1, c1], "q_chroms": [c1, c1], "mode": mode, "keep_empty": ke}, **extra),
                ("ts0<=ts1", "ts0>ts1"), ("qs0<=qs1", "qs0>qs1"), ("ts0<=qs0", "ts0>qs0"), ("te0<=qs1", "te0>qs1"),
            )
    # Three table rows: both tables are sorted before the query (mk), so each table's symbolic rows are
    # taken in start order without loss (any other order is the same table); the remaining cross
    # comparisons are spread over the cores.  (The first thorough run, with the row orders split
    # both ways, left 21 configurations unfinished at their path budget.)
    for mode in ("outer", "inner", "trim"):
        cfgs += split_cases(
            {"t_chroms": [c1, c1, c1], "q_chroms": [c1, c1], "mode": mode, "keep_empty": True, "tier": "thorough"},
            ("ts0<=ts1",), ("ts1<=ts2",), ("qs0<=qs1",),
            ("ts0<=qs0", "ts0>qs0"), ("te0<=qs1", "te0>qs1"), ("ts1<=qs0", "ts1>qs0"), ("ts2<=qs1", "ts2>qs1"), ("te1<=qs1", "te1>qs1"), ("te0<=qs0", "te0>qs0"),
        )
        cfgs += split_cases(
            {"t_chroms": [c1, c1, c2], "q_chroms": [c1, c2], "mode": mode, "keep_empty": False, "tier": "thorough"},
            ("ts0<=ts1",), ("ts0<=qs0", "ts0>qs0"), ("te0<=qs0", "te0>qs0"), ("ts1<=qs0", "ts1>qs0"), ("te1<=qs0", "te1>qs0"), ("ts2<=qs1", "ts2>qs1"),
        )
    return cfgs


# ----------------------------------------------------------------------------


def h_in_range(ctx, t_chroms, mode, use_start, use_end, chrom_arg):
    trows = sym_rows(ctx, "t", t_chroms)
    table = mk(trows, [f"r{i}" for i in range(len(trows))])
    T = rows_t(table)
    start = ctx.int("qs", 0, M) if use_start else None
    end = ctx.int("qe", 0, M) if use_end else None
    if use_start and use_end:
        ctx.assume(start < end)
    chrom = "chr1" if chrom_arg else None
    try:
        out = rows_t(table.in_range(chrom, start, end, mode))
    except Exception as exc:
        claim_raised(ctx, "in_range", exc)
        return
    ctx.observe("rows", [list(r[:3]) for r in out])
    qs = start if use_start else 0
    qe = end if use_end else M + 1
    # with chrom None the table has a single chromosome
    tsel = [t for t in T if (chrom is None or t[0] == chrom)]
    q = (tsel[0][0] if tsel else "chr1", qs, qe)
    got_ids = [g[3] for g in out]
    for t in T:
        if t not in tsel:
            ctx.claim(t[3] not in got_ids, "in_range: rows of other chromosomes are not returned")
    # clipping applies only to the bounds given
    for t in tsel:
        o = hit(mode, t, q)
        if t[3] in got_ids:
            g = out[got_ids.index(t[3])]
            ctx.claim(o, f"in_range [{mode}]: every returned row satisfies the selection rule")
            if mode == "trim":
                es = Max2(t[1], qs) if use_start else t[1]
                ee = Min2(t[2], qe) if use_end else t[2]
                ctx.claim(And(g[1] == es, g[2] == ee), "in_range [trim]: rows clipped to the range")
            else:
                ctx.claim(And(g[1] == t[1], g[2] == t[2]), "in_range: rows keep their coordinates")
        else:
            ctx.claim(Not(o), f"in_range [{mode}]: every row satisfying the selection rule is returned")
    ctx.cover("hit", len(out) > 0)
    ctx.cover("miss", len(out) < len(tsel))
    # input untouched (trim copies)
    for a, b in zip(T, rows_t(table)):
        ctx.claim(And(a[1] == b[1], a[2] == b[2]), "in_range leaves the table untouched")


def _ir_cfgs():
    cfgs = []
    for mode in ("outer", "inner", "trim"):
        for us, ue in ((True, True), (True, False), (False, True), (False, False)):
            cfgs.append({"t_chroms": ["chr1", "chr1"], "mode": mode, "use_start": us, "use_end": ue, "chrom_arg": False})
        cfgs.append({"t_chroms": ["chr1", "chr2"], "mode": mode, "use_start": True, "use_end": True, "chrom_arg": True})
        cfgs.append({"t_chroms": ["chr1", "chr1", "chr1"], "mode": mode, "use_start": True, "use_end": True, "chrom_arg": True, "tier": "thorough"})
    return cfgs


# ----------------------------------------------------------------------------


def h_in_ranges(ctx, t_chroms, mode, nq, case=None):
    trows = sym_rows(ctx, "t", t_chroms)
    table = mk(trows, [f"r{i}" for i in range(len(trows))])
    T = rows_t(table)
    starts, ends = [], []
    for k in range(nq):
        s = ctx.int(f"qs{k}", 0, M)
        e = ctx.int(f"qe{k}", 0, M)
        ctx.assume(s < e)
        starts.append(s)
        ends.append(e)
    apply_case(ctx, case)
    try:
        out = rows_t(table.in_ranges("chr1", starts, ends, mode))
    except Exception as exc:
        claim_raised(ctx, "in_ranges", exc)
        return
    ctx.observe("rows", [list(r[:3]) for r in out])
    # expected: concatenation over queries (in the order given) of the selections
    exp = []
    for k in range(nq):
        q = ("chr1", starts[k], ends[k])
        for t in T:
            o = hit(mode, t, q)
            if o:  # forks
                if mode == "trim":
                    exp.append((t[3], Max2(t[1], q[1]), Min2(t[2], q[2])))
                else:
                    exp.append((t[3], t[1], t[2]))
    ctx.claim(len(out) == len(exp), "in_ranges: concatenation of the per-range selections (count)")
    if len(out) == len(exp):
        for g, e in zip(out, exp):
            ctx.claim(And(g[3] == e[0], g[1] == e[1], g[2] == e[2]), "in_ranges: rows, order and clipping")
    ctx.cover("row-twice", len(out) > len(T))


# ----------------------------------------------------------------------------


def h_intersection(ctx, t_chroms, q_chroms, mode, case=None):
    trows = sym_rows(ctx, "t", t_chroms)
    qrows = sym_rows(ctx, "q", q_chroms)
    apply_case(ctx, case)
    table = mk(trows, [f"r{i}" for i in range(len(trows))])
    queries = mk(qrows, [f"q{i}" for i in range(len(qrows))])
    T, Q = rows_t(table), rows_t(queries)
    try:
        out = rows_t(table.intersection(queries, mode=mode))
    except ValueError as exc:
        # concatenation of nothing
        for q in Q:
            for t in T:
                ctx.claim(Not(hit(mode, t, q)), "intersection raises only when nothing is selected")
        ctx.cover("nothing-selected")
        return
    except Exception as exc:
        claim_raised(ctx, "intersection", exc)
        return
    ctx.observe("rows", [list(r[:3]) for r in out])
    exp = []
    for q in Q:
        for t in T:
            if hit(mode, t, q):  # forks
                exp.append((t[3], t[1], t[2]))
    ctx.claim(len(out) == len(exp), "intersection: per query, the selected rows (count)")
    if len(out) == len(exp):
        for g, e in zip(out, exp):
            ctx.claim(And(g[3] == e[0], g[1] == e[1], g[2] == e[2]), "intersection: rows and order")
    ctx.cover("selected", len(out) > 0)


def _int_cfgs():
    c1, c2 = "chr1", "chr2"
    cfgs = []
    for mode in ("outer", "inner"):
        for t, q in (([c1], [c1]), ([c1, c1], [c1]), ([c1], [c1, c1]), ([c1, c2], [c2]), ([c1], [c1, c2])):
            cfgs.append({"t_chroms": t, "q_chroms": q, "mode": mode})
        cfgs += split_cases({"t_chroms": [c1, c1], "q_chroms": [c1, c1], "mode": mode}, ("ts0<=ts1", "ts0>ts1"), ("qs0<=qs1", "qs0>qs1"))
    return cfgs


# ----------------------------------------------------------------------------


def h_iter_ranges_of(ctx, t_chroms, q_chroms, mode, keep_empty, case=None):
    trows = sym_rows(ctx, "t", t_chroms)
    qrows = sym_rows(ctx, "q", q_chroms)
    apply_case(ctx, case)
    table = mk(trows, [f"r{i}" for i in range(len(trows))])
    queries = mk(qrows, [f"q{i}" for i in range(len(qrows))])
    T, Q = rows_t(table), rows_t(queries)
    try:
        res = [list(s) for s in table.iter_ranges_of(queries, "gene", mode=mode, keep_empty=keep_empty)]
    except Exception as exc:
        claim_raised(ctx, "iter_ranges_of", exc)
        return
    ctx.observe("res", res)
    exp = []
    for q in Q:
        sel = [t[3] for t in T if hit(mode, t, q)]  # forks
        if keep_empty or sel:
            exp.append(sel)
    ctx.claim(res == exp, "iter_ranges_of: one group of column values per query, exactly the selected rows in table order")
    ctx.cover("empty-group", any(len(r) == 0 for r in res))
    ctx.cover("full-group", any(len(r) == len(T) for r in res))


def _iro_cfgs():
    c1, c2 = "chr1", "chr2"
    cfgs = []
    for mode in ("outer", "inner"):
        for ke in (True, False):
            for t, q in (([c1, c1], [c1]), ([c1], [c1, c1]), ([c1, c2], [c2, c2]), ([c1], [c1, c2]), ([c2], [c1, c2])):
                cfgs.append({"t_chroms": t, "q_chroms": q, "mode": mode, "keep_empty": ke})
    cfgs += split_cases({"t_chroms": [c1, c1], "q_chroms": [c1, c1], "mode": "outer", "keep_empty": True, "tier": "thorough"}, ("ts0<=ts1", "ts0>ts1"), ("qs0<=qs1", "qs0>qs1"))
    return cfgs


# ----------------------------------------------------------------------------


def h_into_ranges(ctx, t_chroms, q_chroms, kind, case=None):
    """kind: 'str' (join distinct strings), 'float' (median), 'func' (supplied function), 'const'."""
    trows = sym_rows(ctx, "t", t_chroms)
    qrows = sym_rows(ctx, "q", q_chroms)
    apply_case(ctx, case)
    n = len(trows)
    if kind == "str":
        vals = ["A", "B", "A"][:n]
        default = "-"
        func = None
    elif kind == "float":
        vals = [ctx.real(f"v{i}", -100, 100) for i in range(n)]
        default = 0.5
        func = None
    elif kind == "func":
        vals = [ctx.real(f"v{i}", -100, 100) for i in range(n)]
        default = -1.0
        func = lambda ser: ser.iat[len(ser) - 1]  # noqa: E731
    else:
        vals = [ctx.real(f"v{i}", -100, 100) for i in range(n)]
        default = -1.0
        func = 7.0
    table = mk(trows, [f"r{i}" for i in range(n)], ("val", vals))
    queries = mk(qrows, [f"q{i}" for i in range(len(qrows))])
    T, Q = rows_t(table), rows_t(queries)
    try:
        res = list(table.into_ranges(queries, "val", default, func))
    except Exception as exc:
        claim_raised(ctx, "into_ranges", exc)
        return
    ctx.observe("res", res)
    ctx.claim(len(res) == len(Q), "into_ranges: one value per query range")
    if len(res) != len(Q):
        return
    for q, got in zip(Q, res):
        sel = [t for t in T if hit("outer", t, q)]  # forks
        if not sel:
            ctx.claim(got == default if not isinstance(default, float) else approx(got, default), "into_ranges: default where nothing overlaps")
        elif len(sel) == 1:
            ctx.claim(got == sel[0][4] if kind == "str" else approx(got, sel[0][4]), "into_ranges: the value itself for a single hit")
        else:
            vs = [t[4] for t in sel]
            if kind == "str":
                seen = []
                for v in vs:
                    if v not in seen:
                        seen.append(v)
                ctx.claim(got == ",".join(seen), "into_ranges: comma-joined distinct strings")
            elif kind == "float":
                if len(vs) == 2:
                    ctx.claim(approx(got, (vs[0] + vs[1]) / 2), "into_ranges: median of floats")
                else:
                    lo = Min2(Min2(vs[0], vs[1]), vs[2])
                    hi = Max2(Max2(vs[0], vs[1]), vs[2])
                    ctx.claim(approx(got, vs[0] + vs[1] + vs[2] - lo - hi), "into_ranges: median of floats")
            elif kind == "func":
                ctx.claim(approx(got, vs[-1]), "into_ranges: the supplied function of the selected values")
            else:
                ctx.claim(approx(got, 7.0), "into_ranges: the supplied constant")
    ctx.cover("default", any(True for q in Q if not [t for t in T if hit("outer", t, q)]))
    ctx.cover("summary", any(True for q in Q if len([t for t in T if hit("outer", t, q)]) > 1))


def h_into_ranges_empty(ctx, which):
    """Empty source table / chromosome absent: one default per query."""
    qrows = sym_rows(ctx, "q", ["chr1", "chr1"])
    queries = mk(qrows, ["q0", "q1"])
    if which == "empty":
        table = GA.from_rows([], columns=["chromosome", "start", "end", "gene", "val"])
    else:
        table = mk([("chr2", 5, 10)], ["r0"], ("val", [1.5]))
    res = table.into_ranges(queries, "val", -1.0)
    ok = hasattr(res, "__len__") and len(res) == 2 and not hasattr(res, "columns")
    ctx.claim(ok, "into_ranges: one value per query range (empty / absent source)")
    if ok:
        for v in list(res):
            ctx.claim(v == -1.0, "into_ranges: default where nothing overlaps (empty / absent source)")


def _into_cfgs():
    c1, c2 = "chr1", "chr2"
    cfgs = []
    for kind in ("str", "float", "func", "const"):
        cfgs.append({"t_chroms": [c1, c1], "q_chroms": [c1], "kind": kind})
        cfgs.append({"t_chroms": [c1, c2], "q_chroms": [c1, c2], "kind": kind})
    cfgs += split_cases({"t_chroms": [c1, c1], "q_chroms": [c1, c1], "kind": "float"}, ("ts0<=ts1", "ts0>ts1"), ("qs0<=qs1", "qs0>qs1"))
    cfgs += split_cases({"t_chroms": [c1, c1, c1], "q_chroms": [c1], "kind": "float"}, ("ts0<=ts1", "ts0>ts1"), ("ts1<=ts2", "ts1>ts2"))
    cfgs += split_cases({"t_chroms": [c1, c1, c1], "q_chroms": [c1], "kind": "str"}, ("ts0<=ts1", "ts0>ts1"), ("ts1<=ts2", "ts1>ts2"))
    return cfgs


HARNESSES = [
    Harness("by_ranges", h_by_ranges, _br_cfgs(), covers=["some-hit", "some-empty", "two-hits", "nested-table-rows"], wall_s=200, thorough_wall_s=3000, max_paths=60000),
    Harness("in_range", h_in_range, _ir_cfgs(), covers=["hit", "miss"]),
    Harness(
        "in_ranges",
        h_in_ranges,
        sum([split_cases({"t_chroms": ["chr1", "chr1"], "mode": m, "nq": 2}, ("ts0<=ts1", "ts0>ts1"), ("qs0<=qs1", "qs0>qs1"), ("ts0<=qs0", "ts0>qs0"), ("te0<=qs1", "te0>qs1")) for m in ("outer", "inner", "trim")], [])
        + [{"t_chroms": ["chr1", "chr2"], "mode": "outer", "nq": 2}],
        covers=["row-twice"],
    ),
    Harness("intersection", h_intersection, _int_cfgs(), covers=["selected", "nothing-selected"]),
    Harness("iter_ranges_of", h_iter_ranges_of, _iro_cfgs(), covers=["empty-group", "full-group"]),
    Harness("into_ranges", h_into_ranges, _into_cfgs(), covers=["default", "summary"]),
    Harness("into_ranges_empty", h_into_ranges_empty, [{"which": "empty"}, {"which": "absent"}], replay=True),
]
