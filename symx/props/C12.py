"""C12 -- target and antitarget bins partition exactly the space they should."""
from symx.api import *
from symx.props.common import *
from symx.props.C06 import _rhe

from skgenome import GenomicArray as GA
from cnvlib import target, antitarget, params

PROPERTY = "C12"
FUNCTIONS = [
    "cnvlib.target.do_target/shorten_labels/filter_names/shortest_name",
    "cnvlib.antitarget.do_antitarget/get_antitargets/drop_noncanonical_contigs/compare_chrom_names/guess_chromosome_regions/is_canonical_contig_name",
    "skgenome.gary.GenomicArray.resize_ranges/subtract/subdivide/merge, skgenome.subtract, skgenome.subdivide, skgenome.merge",
]
BOUNDS = {
    "targets": "1-2 baits with symbolic coordinates (overlapping, nested, abutting and zero-width reachable)",
    "access": "none (guessed extents) or one accessible region with symbolic coordinates on the targeted contig, plus concrete regions on an untargeted canonical and an untargeted non-canonical contig",
    "sizes": "average / minimum bin size from the concrete set {(1000, 300), (700, 200)} (antitarget), {40, 267} (target); coordinates <= 6000 so that at most ~6 bins per region arise; the 500-base margin is the code's own constant",
}
NOT_COVERED = ["symbolic average/minimum sizes (division by a symbolic size is nonlinear)", "annotation files for do_target (tabio.read_auto of a file; into_ranges itself is C07)", "more than 2 baits"]
STUBS = []
ASSUMPTIONS = ["tables are sorted by the real GenomicArray.sort, accessible regions are disjoint and non-abutting (as `access` emits them, C13)"]

PAD = 2 * params.INSERT_SIZE


def sym_rows(ctx, prefix, chroms, m, allow_empty=False):
    rows = []
    for i, c in enumerate(chroms):
        s = ctx.int(f"{prefix}s{i}", 0, m)
        e = ctx.int(f"{prefix}e{i}", 0, m)
        ctx.assume(s <= e if allow_empty else s < e)
        rows.append((c, s, e))
    return rows


def covered(rows, c, x):
    return Or(*[And(r[1] <= x, x < r[2]) for r in rows if r[0] == c])


def h_target(ctx, chroms, split, avg, m=200):
    rows = sym_rows(ctx, "t", chroms, m, allow_empty=True)
    names = ["ref|G1,mRNA|AB1", "ref|G1,mRNA|XY2", "ens|E9"][: len(rows)]
    ga = GA.from_rows([r + (nm,) for r, nm in zip(rows, names)], columns=["chromosome", "start", "end", "gene"])
    ga.sort()
    srows = [tuple(r) for r in ga.data.itertuples(index=False)]
    try:
        out = target.do_target(ga, None, True, split, avg)
    except Exception as exc:
        claim_raised(ctx, "do_target", exc)
        return
    orows = [tuple(r) for r in out.data.itertuples(index=False)]
    ctx.observe("rows", [list(r[:3]) for r in orows])
    nonempty = [r for r in srows if bool(r[1] != r[2])]
    ctx.cover("zero-width bait dropped", len(nonempty) < len(srows))
    x = ctx.int("x", 0, m)
    for c in sorted(set(chroms)):
        ctx.claim(Iff(covered(orows, c, x), covered(nonempty, c, x)), "target bins cover exactly the union of the non-empty baits")
    for r in orows:
        ctx.claim(r[1] < r[2], "target bins are non-empty")
    if not split:
        ctx.claim(len(orows) == len(nonempty) and all(bool(And(o[1] == w[1], o[2] == w[2])) and o[0] == w[0] for o, w in zip(orows, nonempty)), "without --split the non-empty baits are returned unchanged")
        # label shortening keeps the number and coordinates of bins; names are one accession each
        for o in orows:
            ctx.claim("," not in o[3] and "|" not in o[3], "shortened labels are single accessions")
        return
    for i, a in enumerate(orows):
        for b in orows[i + 1 :]:
            if a[0] == b[0]:
                ctx.claim(Or(a[2] <= b[1], b[2] <= a[1]), "split target bins do not overlap")
    from symx.props.C08 import natural_key

    for a, b in zip(orows[:-1], orows[1:]):
        if a[0] == b[0]:
            ctx.claim(a[1] <= b[1], "split target bins are in genomic order")
        else:
            ctx.claim(natural_key(a[0]) < natural_key(b[0]), "split target bins are in genomic order (chromosomes in natural order: 2 before 10)")
            ctx.cover("two chromosomes in the output")
    # each merged bait region is cut into max(1, round(L/avg)) bins of equal size (+-1)
    if len(nonempty) == 1:
        regions = [(nonempty[0][0], nonempty[0][1], nonempty[0][2], True)]
    elif len(nonempty) == 2:
        r0, r1 = nonempty
        if r0[0] != r1[0]:
            regions = [(r0[0], r0[1], r0[2], True), (r1[0], r1[1], r1[2], True)]
        else:
            touch = And(r0[1] <= r1[2], r1[1] <= r0[2])
            lo, hi = Min2(r0[1], r1[1]), Max2(r0[2], r1[2])
            regions = [(r0[0], lo, If(touch, hi, If(r0[1] <= r1[1], r0[2], r1[2])), True), (r0[0], If(r0[1] <= r1[1], r1[1], r0[1]), hi, Not(touch))]
    else:
        regions = []
    for (cc, lo, hi, ex) in regions:
        L = hi - lo
        k = Max2(1, _rhe(L, avg)) if isinstance(avg, int) else None
        if k is None:
            continue
        inside = [And(r[0] == cc, lo <= r[1], r[2] <= hi) if r[0] == cc else False for r in orows]
        ctx.claim(Implies(ex, Count(inside) == k), "each merged bait is cut into max(1, round(length/avg)) bins")
        if not bool(ex):
            continue
        kv = k.__index__() if isinstance(k, Sym) else int(k)  # case split on the bin count
        for r, ins in zip(orows, inside):
            sz = r[2] - r[1]
            ctx.claim(Implies(ins, Or(sz == L // kv, sz == L // kv + 1)), "bins of a merged bait have equal size (+-1)")
    ctx.cover("split happened", len(orows) > len(nonempty))


def h_antitarget(ctx, t_chroms, access_mode, avg, mn, m=6000, case=None, nested3=False):
    trows = sym_rows(ctx, "t", t_chroms, m)
    if nested3:
        # an enclosing target with two separate targets nested inside it
        ctx.assume(And(trows[0][1] <= trows[1][1], trows[1][2] < trows[2][1], trows[2][2] <= trows[0][2]))
    if access_mode == "mixed":
        # what is decided here is which contigs get antitargets: the second bait is pinned
        ctx.assume(And(trows[1][1] == 1000, trows[1][2] == 1100))
    if access_mode != "none":
        a = ctx.int("as0", 0, m)
        b = ctx.int("ae0", 0, m)
        ctx.assume(a < b)
    apply_case(ctx, case)
    targets = GA.from_rows([r + ("G",) for r in trows], columns=["chromosome", "start", "end", "gene"])
    targets.sort()
    arows = []
    access = None
    if access_mode != "none":
        arows = [("chr1", a, b)]
        extra = []
        if access_mode == "contigs":
            extra = [("chr2", 0, 2500), ("chrUn_gl000220", 0, 2500)]
        elif access_mode == "mixed":
            # the panel also targets a non-canonical contig; another non-canonical one (chrM) is untargeted
            extra = [("chr2", 0, 2500), ("chrUn_gl000220", 0, 2500), ("chrM", 0, 2500)]
        access = GA.from_rows(arows + extra)
        access.sort()
    try:
        out = antitarget.do_antitarget(targets, access, avg, mn)
    except Exception as exc:
        claim_raised(ctx, "do_antitarget", exc)
        return
    orows = [tuple(r) for r in out.data.itertuples(index=False)]
    ctx.observe("rows", [list(r[:3]) for r in orows])
    # accessible space per the statement
    tchrom_set = sorted(set(t_chroms), key=t_chroms.index)
    if access_mode == "none":
        # guessed extents: per chromosome from the telomere allowance (150 kb) to the end of its last bait
        acc = []
        for c in tchrom_set:
            ends = [r[2] for r in trows if r[0] == c]
            last = ends[0]
            for e_ in ends[1:]:
                last = Max2(last, e_)
            acc.append((c, 150000, last))
    else:
        acc = list(arows) + [e for e in extra if e[0] in t_chroms]
    shrunk = [(c, lo + PAD, hi - PAD) for c, lo, hi in acc]
    padded = [(c, Max2(s - PAD, 0), e + PAD) for c, s, e in trows]

    def F(c, x):
        return And(Or(*[And(lo <= x, x < hi) for cc, lo, hi in shrunk if cc == c]), Not(Or(*[And(lo <= x, x < hi) for cc, lo, hi in padded if cc == c])))

    o1 = [r for r in orows if r[0] == "chr1"]
    x = ctx.int("x", 0, 2 * m)
    for r in orows:
        ctx.claim(r[3] == "Antitarget", "antitarget bins are named Antitarget")
        ctx.claim(And(r[2] - r[1] >= mn, 2 * (r[2] - r[1]) <= 3 * avg), "antitarget bins are at least the minimum and at most 1.5x the average size")
    for c in tchrom_set:
        oc = [r for r in orows if r[0] == c]
        ctx.claim(Implies(covered(oc, c, x), F(c, x)), "antitargets lie inside the accessible regions shrunk by 500 and never come within 500 bases of a target")
        if c != "chr1":
            lc, rc_ = ctx.int(f"l_{c}", 0, 2 * m), ctx.int(f"r_{c}", 0, 2 * m)
            win = And(lc <= x, x < rc_, rc_ - lc >= mn, Or(*[And(lo <= lc, rc_ <= hi) for cc, lo, hi in shrunk if cc == c]), *[Or(rc_ <= lo, lc >= hi) for cc, lo, hi in padded if cc == c])
            ctx.claim(Implies(win, covered(oc, c, x)), "every stretch of off-target accessible sequence of at least the minimum size is covered")
            ctx.cover("second targeted chromosome", len(oc) >= 1)
    for i, a in enumerate(o1):
        for b in o1[i + 1 :]:
            ctx.claim(Or(a[2] <= b[1], b[2] <= a[1]), "antitarget bins do not overlap each other")
    # every stretch of off-target accessible sequence of at least the minimum size is covered
    l = ctx.int("l", 0, 2 * m)
    r_ = ctx.int("r", 0, 2 * m)
    window_in_F = And(l <= x, x < r_, r_ - l >= mn, Or(*[And(lo <= l, r_ <= hi) for cc, lo, hi in shrunk if cc == "chr1"]), *[Or(r_ <= lo, l >= hi) for cc, lo, hi in padded if cc == "chr1"])
    ctx.claim(Implies(window_in_F, covered(o1, "chr1", x)), "every stretch of off-target accessible sequence of at least the minimum size is covered")
    if access_mode in ("contigs", "mixed"):
        o2 = [r for r in orows if r[0] == "chr2"]
        ctx.claim(len(o2) >= 1 and o2[0][1] == PAD and o2[-1][2] == 2500 - PAD, "an untargeted canonical contig is binned over its shrunk accessible region")
        ctx.claim(not [r for r in orows if r[0] not in ("chr1", "chr2") and r[0] not in t_chroms], "an untargeted non-canonical contig gets no antitargets")
        ctx.cover("contigs")
    if len(trows) == 2:
        ctx.cover("targets nested", And(trows[0][1] <= trows[1][1], trows[1][2] <= trows[0][2]))
    ctx.cover("some antitargets", len(o1) >= 1)
    ctx.cover("between two targets", len(o1) >= 1 and len(trows) == 2 and Or(*[And(trows[0][2] <= r[1], r[2] <= trows[1][1]) for r in o1]))


_S2 = (("ts0<=ts1", "ts0>ts1"), ("te0<=te1", "te0>te1"), ("ts0<=as0", "ts0>as0"), ("te1<=ae0", "te1>ae0"))


def _anti_cfgs():
    out = []
    for avg, mn in ((1000, 300), (700, 200)):
        out.append({"t_chroms": ["chr1"], "access_mode": "one", "avg": avg, "mn": mn})
        out.append({"t_chroms": ["chr1"], "access_mode": "contigs", "avg": avg, "mn": mn})
        out.append({"t_chroms": ["chr1"], "access_mode": "none", "avg": avg, "mn": mn})
        if avg == 1000:
            # guessed extents need coordinates beyond the 150 kb telomere allowance: larger bins, two chromosomes
            # whose table order (chr2, chr10) differs from the lexicographic one
            out.append({"t_chroms": ["chr2", "chr10"], "access_mode": "none", "avg": 100000, "mn": 30000, "m": 600000})
            out.append({"t_chroms": ["chr1", "chr1", "chr1"], "access_mode": "one", "avg": avg, "mn": mn, "nested3": True})
            out.append({"t_chroms": ["chr1", "chrUn_gl000220"], "access_mode": "mixed", "avg": avg, "mn": mn, "m": 3000})
        for c in split_cases({"t_chroms": ["chr1", "chr1"], "access_mode": "one", "avg": avg, "mn": mn}, *_S2):
            if avg == 700:
                c["tier"] = "thorough"
            out.append(c)
    return out


HARNESSES = [
    Harness(
        "target",
        h_target,
        [{"chroms": lay, "split": sp, "avg": avg} for lay in (["chr1"], ["chr1", "chr1"], ["chr1", "chr2"], ["chr2", "chr10"]) for sp in (False, True) for avg in (40,)]
        + [{"chroms": ["chr1"], "split": True, "avg": 267, "m": 1200}, {"chroms": ["chr1", "chr1"], "split": True, "avg": 25, "m": 120, "tier": "thorough"}],
        covers=["zero-width bait dropped", "split happened", "two chromosomes in the output"],
        wall_s=240,
        thorough_wall_s=1500,
    ),
    Harness("antitarget", h_antitarget, _anti_cfgs(), covers=["some antitargets", "targets nested", "between two targets", "contigs", "second targeted chromosome"], wall_s=400, thorough_wall_s=1800),
]
