"""C01 -- clonal calls invert the purity/ploidy mixing model; cn is never negative."""
from symx.api import *
from symx.props.common import *

from cnvlib import call, params

PROPERTY = "C01"
FUNCTIONS = [
    "cnvlib.call.do_call (clonal; purity < 1, purity = 1, purity None)",
    "cnvlib.call.absolute_clonal/absolute_dataframe/get_as_dframe_and_set_reference_and_expect_copies",
    "cnvlib.call._log2_ratio_to_absolute/_log2_ratio_to_absolute_pure/absolute_pure/_reference_copies_pure/log2_ratios",
    "cnvlib.cnary.CopyNumArray.chr_x_label/chr_y_label/chr_x_filter/chr_y_filter/parx_filter/pary_filter",
]
BOUNDS = {
    "rows": "one table holding an autosomal, an X and a Y row at once (+ X/Y rows with symbolic coordinates when a PAR genome is given)",
    "n": "symbolic integer 0..12 per row",
    "purity": "symbolic real in [0.01, 1) on the purity path (below that the float64 inversion cancels catastrophically); 1 and None as configurations",
    "ploidy": "1..6 (concrete per configuration)",
    "log2": "defined by exp2(L) = (p*n + (1-p)*x)/r for the inversion clauses; free real in [-30, 30] for the non-negativity clause",
    "PAR": "X/Y start,end symbolic in [0, 2*10^8]: the solver picks inside PAR1, inside PAR2, straddling, outside",
}
NOT_COVERED = [
    "ratio 0 (log2 = -inf), i.e. n = 0 together with x = 0 or purity 1",
    "rows with r = 0 in the inversion clause (ploidy 1 on haploid chromosomes, PAR-Y): premise undefined",
    "float64 rounding (A1)",
]
STUBS = ["logging left as is"]
ASSUMPTIONS = ["exp2/log2 are uninterpreted functions with sound lemmas (positivity, strict monotonicity, inverse pair, rational enclosures of constants)"]

MAXC = 2 * 10**8


def oracle_rx(cls, ploidy, hapx, female):
    """(r, x) written from the property text / documentation."""
    half = ploidy // 2
    if cls in ("auto", "parx"):
        return ploidy, ploidy
    if cls == "x":
        return (half if hapx else ploidy), (ploidy if female else half)
    if cls == "y":
        return half, (0 if female else half)
    if cls == "pary":
        return 0, 0
    raise KeyError(cls)


def in_par(genome, which, s, e):
    regs = PAR[genome][which]
    return Or(*[And(s >= a, e <= b) for a, b in regs])


PAR = {
    "grch37": {"X": [(60000, 2699520), (154931043, 155260560)], "Y": [(10000, 2649520), (59034049, 59363566)]},
    "grch38": {"X": [(10000, 2781479), (155701382, 156030895)], "Y": [(10000, 2781479), (56887902, 57217415)]},
}


def rep_coords(genome, which):
    """Concrete representatives of every position class relative to PAR1/PAR2."""
    (a1, b1), (a2, b2) = PAR[genome][which]
    return [(a1, b1), (a1 + 5, b1 - 5), (a1 - 1, b1), (a1, b1 + 1), (b1 - 10, b1 + 10), (b1, a2), (a2, b2), (a2 + 1, a2 + 2), (a2 - 1, b2), (a2, b2 + 1), (b2, b2 + 100), (0, a1)]


def build(ctx, naming, genome, symrow=None, coords=None):
    """Without a genome: an autosomal, an X and a Y row.  With a genome: a
    concrete autosomal row (it fixes the naming style, as in a real file) and one
    X or Y row with symbolic coordinates."""
    pre = "chr" if naming == "chr" else ""
    if not genome:
        return [pre + "1", pre + "X", pre + "Y"], [100, 100, 100], [200, 200, 200], ["auto", "x", "y"]
    if coords is not None:
        s, e = coords
    else:
        s = ctx.int(f"s{symrow}", 0, MAXC)
        e = ctx.int(f"e{symrow}", 0, MAXC)
        ctx.assume(s < e)
    return [pre + "1", pre + symrow], [100, s], [200, e], ["auto", "sym" + symrow]


def resolve_classes(ctx, classes, starts, ends, genome):
    """Decide (by forking) the PAR class of the symbolic rows."""
    out = []
    for c, s, e in zip(classes, starts, ends):
        if c == "symX":
            out.append("parx" if in_par(genome, "X", s, e) else "x")
        elif c == "symY":
            out.append("pary" if in_par(genome, "Y", s, e) else "y")
        else:
            out.append(c)
    return out


def h_invert(ctx, ploidy, hapx, female, naming, genome, purity_mode, symrow=None):
    """Premise: log2 = log2((p n + (1-p) x)/r).  Claims cn = n and the rewritten log2."""
    chroms, starts, ends, classes = build(ctx, naming, genome, symrow)
    classes = resolve_classes(ctx, classes, starts, ends, genome)
    if purity_mode == "sym":
        p = ctx.real("p", 0.01, 1, hi_open=True)
    else:
        p = purity_mode  # 1.0 or None
    pe = 1.0 if p is None else p
    ns, Ls, rs = [], [], []
    for i, cls in enumerate(classes):
        r, x = oracle_rx(cls, ploidy, hapx, female)
        # purity 1/None goes down the pure path, which ignores the genome (PAR) option
        if purity_mode != "sym" and cls in ("parx", "pary"):
            r, x = oracle_rx("x" if cls == "parx" else "y", ploidy, hapx, female)
        n = ctx.int(f"n{i}", 0, 12)
        ns.append(n)
        rs.append(r)
        if r == 0:
            Ls.append(ctx.real(f"L{i}", -30, 30))
            continue
        ratio = (pe * n + (1 - pe) * x) / r
        ctx.assume(ratio > 0)
        Ls.append(defined_by_exp2(ctx, f"L{i}", ratio))
    cna = make_cna({"chromosome": chroms, "start": starts, "end": ends, "gene": ["g"] * len(chroms), "log2": Ls})
    try:
        out = call.do_call(cna, None, "clonal", ploidy, p, hapx, female, genome)
    except Exception as exc:
        claim_raised(ctx, "do_call", exc)
        return
    ctx.claim(len(out) == len(cna), "row count unchanged")
    cns = col(out, "cn")
    ol2 = col(out, "log2")
    ctx.observe("cn", cns)
    for i, cls in enumerate(classes):
        ctx.claim(is_intlike(cns[i]), "cn is an integer")
        ctx.claim(cns[i] >= 0, "cn >= 0")
        if rs[i] == 0:
            if cls == "pary":
                ctx.claim(cns[i] == 0, "PAR-Y bins (not covered on Y) get cn 0")
            ctx.cover("r=0 row")
            continue
        ctx.claim(cns[i] == ns[i], f"cn = n [{cls}]")
        ctx.cover(f"class {cls}")
        if purity_mode == "sym" and ploidy % 2 == 0:
            shift = 1 if rs[i] == ploidy // 2 else 0
            want = log2(Max2(ns[i] / ploidy, 0.001)) + shift
            ctx.claim(approx(ol2[i], want), f"log2 rewritten to log2(max(n/ploidy, 0.001)) relative to the reference [{cls}]")
            ctx.cover("floored", ns[i] == 0)
        elif purity_mode != "sym":
            ctx.claim(approx(ol2[i], Ls[i]), "log2 untouched without purity rescaling")


def h_nonneg(ctx, ploidy, hapx, female, naming, genome, purity_mode, symrow=None):
    """Any log2 in [-30, 30]: cn is an integer >= 0; without purity cn = round(r 2^log2).
    With a genome and a symbolic purity the X/Y row's coordinates are a solver-chosen
    member of a concrete list of representatives of every position class relative to
    PAR1/PAR2 (the inversion harness keeps them fully symbolic): free log2 x symbolic
    purity x symbolic coordinates made z3's nonlinear solver return unknown."""
    coords = None
    if genome and purity_mode == "sym":
        coords = ctx.choice("coords", rep_coords(genome, symrow))
    chroms, starts, ends, classes = build(ctx, naming, genome, symrow, coords)
    if purity_mode == "sym":
        p = ctx.real("p", 0.01, 1, hi_open=True)
    else:
        p = purity_mode
    Ls = [ctx.real(f"L{i}", -30, 30) for i in range(len(chroms))]
    cna = make_cna({"chromosome": chroms, "start": starts, "end": ends, "gene": ["g"] * len(chroms), "log2": Ls})
    try:
        out = call.do_call(cna, None, "clonal", ploidy, p, hapx, female, genome)
    except Exception as exc:
        claim_raised(ctx, "do_call", exc)
        return
    classes = resolve_classes(ctx, classes, starts, ends, genome)
    cns = col(out, "cn")
    ctx.observe("cn", cns)
    ctx.claim(len(out) == len(cna), "row count unchanged")
    for i, cls in enumerate(classes):
        ctx.claim(is_intlike(cns[i]), "cn is an integer")
        ctx.claim(cns[i] >= 0, "cn >= 0")
        if purity_mode != "sym":
            r, _ = oracle_rx({"parx": "x", "pary": "y"}.get(cls, cls), ploidy, hapx, female)
            v = r * exp2(Ls[i])
            ctx.claim(And(cns[i] - v <= 0.5 + 1e-9, v - cns[i] <= 0.5 + 1e-9), "without purity cn is the nearest integer to r*2^log2")
        else:
            r, x = oracle_rx(cls, ploidy, hapx, female)
            v = (r * exp2(Ls[i]) - x * (1 - p)) / p
            v = If(v >= 0, v, 0)
            ctx.claim(And(cns[i] - v <= 0.5 + 1e-9, v - cns[i] <= 0.5 + 1e-9), "with purity cn is the nearest integer to the inverted mixing model, floored at 0")
            ctx.cover("clipped-at-zero", (r * exp2(Ls[i]) - x * (1 - p)) < 0)
    ctx.cover("reached")


def _cfgs(quick_ploidies=(1, 2, 3, 4), genomes_quick=(None, "grch38")):
    out = []
    for ploidy in (1, 2, 3, 4, 5, 6):
        for hapx in (False, True):
            for female in (False, True):
                for naming in ("chr", "plain"):
                    for genome in (None, "grch37", "grch38"):
                        for pm in ("sym", 1.0, None):
                            if genome and pm != "sym" and naming == "plain":
                                continue  # pure path ignores the genome; one naming suffices
                            quick = ploidy in quick_ploidies and genome in genomes_quick and (naming == "chr" or (genome is None and pm == "sym"))
                            if genome == "grch37" and ploidy == 2 and pm == "sym" and naming == "chr":
                                quick = True
                            c = {"ploidy": ploidy, "hapx": hapx, "female": female, "naming": naming, "genome": genome, "purity_mode": pm}
                            if not quick:
                                c["tier"] = "thorough"
                            if genome:
                                for symrow in ("X", "Y"):
                                    out.append(dict(c, symrow=symrow))
                            else:
                                out.append(c)
    return out


HARNESSES = [
    Harness(
        "invert",
        h_invert,
        _cfgs(),
        covers=["class auto", "class x", "class y", "class parx", "r=0 row", "floored"],
        wall_s=240,
        thorough_wall_s=900,
        keep_uf=True,
        query_timeout_ms=40000,
    ),
    Harness("nonneg", h_nonneg, _cfgs(), covers=["reached", "clipped-at-zero"], wall_s=240, thorough_wall_s=900, keep_uf=True, query_timeout_ms=40000),
]
