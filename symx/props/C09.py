"""C09 -- coverage reports mean per-base depth of the counted reads in every bin."""
import io
import os

import numpy as np
import pandas as pd

from symx.api import *
from symx.props.common import *

from cnvlib import coverage, parallel
from cnvlib.params import NULL_LOG2_COVERAGE

PROPERTY = "C09"
FUNCTIONS = [
    "cnvlib.coverage.region_depth_count (incl. its filter_read)/_rdc_chunk/_rdc/interval_coverages_count (serial branch)",
    "cnvlib.coverage.interval_coverages_pileup (post-processing)/bedcov/_bedcov/detect_bedcov_columns",
    "cnvlib.parallel.to_chunks/rm/SerialPool",
    "cnvlib.coverage.interval_coverages_count (pool branch, with an in-process stand-in pool)/_rdc, cnvlib.samutil.ensure_bam_index/is_newer_than (stand-in file system with symbolic modification times)",
]
BOUNDS = {
    "reads": "<= 2 reads of <= 3 aligned positions each, symbolic start, 0-2 soft-clipped bases at either end (query length > aligned length), a hole of 0-2 reference bases before the last aligned base, every flag (duplicate, secondary, unmapped, QC-fail) a symbolic boolean, symbolic MAPQ and min_mapq",
    "bins": "one bin with symbolic start/end (zero-width and reversed reachable) for the depth clause; 2-3 bins over 2 chromosomes for the row/order clause",
    "bedcov": "3-, 4- and 6-column bedcov output with symbolic coordinates and base counts (unique decimal tokens through the real read_csv)",
    "chunks": "<= 5 BED lines incl. '#' comment lines, symbolic chunk size 1..6",
}
NOT_COVERED = [
    "samtools bedcov itself (C, via pysam) and therefore 'pileup = count on reads without indels'",
    "BAM decoding (pysam/htslib): reads are stub objects",
    "real multi-process execution: the pool contract (ordered map, no shared state) is assumed",
]
STUBS = [
    "bamfile.fetch returns the harness's read objects (a superset of the reads overlapping the region is allowed by the code's own position test)",
    "pysam.bedcov returns text lines: the input BED line plus the base count (its documented format)",
    "pysam.AlignmentFile -> the stub BAM; open() of the regions file -> in-memory lines",
    "concurrent.futures.ProcessPoolExecutor -> in-process stand-in (ordered map, arguments unchanged) in the workers harness",
    "os.path.isfile / os.stat / pysam.index -> dictionary file system with symbolic modification times (bam_index harness)",
]
ASSUMPTIONS = ["log2 is an uninterpreted function with the inverse/monotonicity lemmas"]

M = 3 * 10**8  # a bin may be as long as a chromosome (depth below 2**-20 is reachable)


class Read:
    def __init__(self, ctx, k, length):
        self.start = ctx.int(f"r{k}s", 0, M)
        # aligned reference positions as pysam reports them: soft-clipped bases (0-2 at either end)
        # are part of the query but not aligned; a deletion / skipped stretch of 0-2 reference bases
        # before the last aligned base leaves a hole in the positions
        self.gap = ctx.int(f"r{k}gap", 0, 2) if length > 1 else 0
        self.clip_left = ctx.int(f"r{k}cl", 0, 2)
        self.clip_right = ctx.int(f"r{k}cr", 0, 2)
        self.positions = [self.start + j + (self.gap if (length > 1 and j == length - 1) else 0) for j in range(length)]
        self.is_duplicate = ctx.bool(f"r{k}dup")
        self.is_secondary = ctx.bool(f"r{k}sec")
        self.is_unmapped = ctx.bool(f"r{k}unm")
        self.is_qcfail = ctx.bool(f"r{k}qc")
        self.mapq = ctx.int(f"r{k}mq", 0, 60)
        # further parts of pysam's AlignedSegment a coverage routine may look at; none of them is a
        # reason not to count a read (the statement lists: duplicate, secondary, unmapped, QC-fail, low MAPQ)
        self.is_supplementary = ctx.bool(f"r{k}sup")
        self.is_paired = True
        self.is_proper_pair = True
        self.is_reverse = False
        self.is_read1 = True
        self.is_read2 = False
        self.mate_is_unmapped = False
        self.reference_start = self.start
        self.reference_end = self.positions[-1] + 1
        self.reference_length = self.reference_end - self.start
        self.query_length = length + self.clip_left + self.clip_right
        self.query_alignment_length = length
        self.query_alignment_start = self.clip_left
        self.query_alignment_end = self.clip_left + length

    @property
    def mapping_quality(self):
        return self.mapq

    def get_reference_positions(self, full_length=False):
        return list(self.positions)


class Bam:
    """Stand-in for pysam.AlignmentFile with the parts of its interface a coverage routine may
    legitimately use: fetch, the contig table, the context-manager protocol."""

    def __init__(self, reads_by_chrom, lengths=None):
        self.reads = reads_by_chrom
        self._lengths = dict(lengths or {})

    def get_reference_length(self, reference):
        return self._lengths.get(reference, M)

    @property
    def references(self):
        return tuple(self.reads)

    @property
    def lengths(self):
        return tuple(self.get_reference_length(c) for c in self.reads)

    @property
    def nreferences(self):
        return len(self.reads)

    def fetch(self, reference=None, start=None, end=None):
        return list(self.reads.get(reference, []))

    def __enter__(self):  # pysam's AlignmentFile is a context manager
        return self

    def __exit__(self, *a):
        return False

    def close(self):
        pass


def counted(r, min_mapq):
    return Not(Or(r.is_duplicate, r.is_secondary, r.is_unmapped, r.is_qcfail, r.mapq < min_mapq))


def h_depth(ctx, lengths):
    reads = [Read(ctx, k, L) for k, L in enumerate(lengths)]
    s = ctx.int("bs", 0, M)
    e = ctx.int("be", 0, M)
    mq = ctx.int("min_mapq", 0, 60)
    # the contig has a length; reads lie on it, the bin may run past its end
    clen = ctx.int("contig_len", 1, M)
    for r in reads:
        ctx.assume(r.positions[-1] < clen)
    bam = Bam({"chr1": reads}, {"chr1": clen})
    ctx.cover("bin runs past the contig end", e > clen)
    try:
        count, row = coverage.region_depth_count(bam, "chr1", s, e, "GENE", mq)
    except Exception as exc:
        claim_raised(ctx, "region_depth_count", exc)
        return
    chrom, rs, re_, gene, lg, depth = row
    ctx.observe("depth", depth)
    ctx.claim(chrom == "chr1" and gene == "GENE" and And(rs == s, re_ == e), "the row keeps its bin's coordinates and name")
    inside = Sum([If(And(counted(r, mq), s <= p, p < e), 1, 0) for r in reads for p in r.positions])
    if bool(e > s):
        ctx.claim(depth * (e - s) == inside if not concrete(ctx) else approx(depth * (e - s), inside), "depth = aligned bases of counted reads inside the bin / bin length")
        ctx.cover("positive depth", inside > 0)
    else:
        ctx.claim(depth == 0, "zero-width or reversed bins get depth 0")
        ctx.cover("zero-width bin")
    if bool(depth > 0):
        ctx.claim(approx(lg, log2(depth)), "log2 = log2(depth)")
    else:
        ctx.claim(lg == NULL_LOG2_COVERAGE, "a bin that no counted read overlaps gets depth 0 and log2 -20")
        ctx.cover("uncovered bin")
    ctx.claim(count == Count([counted(r, mq) for r in reads]), "the read count is the number of fetched reads that pass the filters")
    ctx.cover("read filtered", Or(*[Not(counted(r, mq)) for r in reads]))
    ctx.cover("supplementary read counted", Or(*[And(counted(r, mq), r.is_supplementary) for r in reads]))
    ctx.cover("read straddles the bin edge", Or(*[And(r.positions[0] < s, r.positions[-1] >= s) for r in reads if len(r.positions) > 1]) if any(len(r.positions) > 1 for r in reads) else False)


def h_count_rows(ctx, order):
    """interval_coverages_count, serial: one row per bin, coordinates and names kept, chromosome order of the regions file."""
    bins = {"a": ("chr1", "A"), "b": ("chr1", "B"), "c": ("chr2", "C")}
    lines, coords = [], {}
    for key in order:
        c, nm = bins[key]
        s = ctx.int(f"{key}s", 0, M)
        e = ctx.int(f"{key}e", 0, M)
        ctx.assume(s < e)
        coords[key] = (c, s, e, nm)
        lines.append(f"{c}\t{s}\t{e}\t{nm}\n")
    bam = Bam({"chr1": [], "chr2": []})  # the depth clause is the other harness's subject

    class _Pysam:
        @staticmethod
        def AlignmentFile(*a, **k):
            return bam

    orig = coverage.pysam
    coverage.pysam = _Pysam
    try:
        res = list(coverage.interval_coverages_count(io.StringIO("".join(lines)), "sample.bam", 0, 1))
    except Exception as exc:
        claim_raised(ctx, "interval_coverages_count", exc)
        return
    finally:
        coverage.pysam = orig
    rows = [r for _c, r in res]
    ctx.observe("n", len(rows))
    ctx.claim(len(rows) == len(order), "one output row per bin")
    for key in order:
        c, s, e, nm = coords[key]
        hits = [r for r in rows if r[3] == nm]
        ctx.claim(len(hits) == 1 and hits[0][0] == c and And(hits[0][1] == s, hits[0][2] == e), "each output row keeps its bin's coordinates and name")
    for a, b in zip(rows[:-1], rows[1:]):
        if a[0] == b[0]:
            ctx.claim(Or(a[1] < b[1], And(a[1] == b[1], a[2] <= b[2])), "rows of a chromosome are in coordinate order")
    ctx.cover("reached")


def h_workers(ctx):
    """interval_coverages_count with 1 worker and with N: the same rows and counts.  The process
    pool is replaced by an in-process stand-in that honours its contract (ordered map, arguments
    handed over unchanged): what is decided is what each worker is asked to do -- the same bins,
    the same mapping-quality cut-off."""
    mq = ctx.int("min_mapq", 0, 60)
    reads = {"chr1": [Read(ctx, 0, 2)], "chr2": [Read(ctx, 1, 1)]}
    bins = [("chr1", ctx.int("as", 0, M), ctx.int("ae", 0, M), "A"), ("chr2", ctx.int("cs", 0, M), ctx.int("ce", 0, M), "C")]
    for _c, s_, e_, _n in bins:
        ctx.assume(s_ < e_)
    text = "".join(f"{c}\t{s_}\t{e_}\t{n}\n" for c, s_, e_, n in bins)
    bam = Bam(reads)

    class _Pysam:
        @staticmethod
        def AlignmentFile(*a, **k):
            return bam

    class _Pool:
        def __init__(self, n):
            self.n = n

        def __enter__(self):
            return self

        def __exit__(self, *a):
            return False

        def map(self, fn, it):
            return [fn(x) for x in it]

    class _Futures:
        ProcessPoolExecutor = _Pool

    orig_p, orig_f = coverage.pysam, coverage.futures
    coverage.pysam, coverage.futures = _Pysam, _Futures
    try:
        one = list(coverage.interval_coverages_count(io.StringIO(text), "sample.bam", mq, 1))
        many = list(coverage.interval_coverages_count(io.StringIO(text), "sample.bam", mq, 3))
    except Exception as exc:
        claim_raised(ctx, "interval_coverages_count", exc)
        return
    finally:
        coverage.pysam, coverage.futures = orig_p, orig_f
    ctx.observe("counts", [c for c, _r in one])
    ctx.claim(len(one) == len(many) == 2, "one row per bin for any number of workers")
    if len(one) != len(many):
        return
    for (c1, r1), (c2, r2) in zip(one, many):
        ctx.claim(c1 == c2, "the read count of a bin is the same for 1 and N workers (same filters, same cut-off)")
        ctx.claim(r1[0] == r2[0] and r1[3] == r2[3] and And(r1[1] == r2[1], r1[2] == r2[2], r1[5] == r2[5]), "the row of a bin is the same for 1 and N workers")
    ctx.cover("a read below the cut-off", Or(*[r.mapq < mq for rs in reads.values() for r in rs]))
    ctx.cover("reached")


def h_bam_index(ctx, ext):
    """ensure_bam_index: the index the reads are looked up through is never older than the
    alignment file -- an existing index is reused only if it is at least as new, otherwise it is
    rebuilt (file system and pysam.index are stand-ins with symbolic modification times)."""
    from cnvlib import samutil

    bam = "dir/S." + ext
    idx_ext = "bai" if ext == "bam" else "crai"
    t_bam = ctx.int("t_bam", 0, 1000)
    files = {bam: t_bam}
    long_name, short_name = bam + "." + idx_ext, bam[:-1] + "i"
    if ctx.choice("has_long", [0, 1]):
        files[long_name] = ctx.int("t_long", 0, 1000)
    if ctx.choice("has_short", [0, 1]):
        files[short_name] = ctx.int("t_short", 0, 1000)
    before = dict(files)
    built = []

    class _St:
        def __init__(self, t):
            self.st_mtime = t

    class _Path:
        @staticmethod
        def isfile(p):
            return p in files

    class _OS:
        path = _Path

        @staticmethod
        def stat(p):
            return _St(files[p])

    class _Pysam:
        @staticmethod
        def index(fname, *a):
            built.append(fname)
            files[fname + "." + idx_ext] = 2000  # now

    orig_os, orig_py = samutil.os, samutil.pysam
    samutil.os, samutil.pysam = _OS, _Pysam
    try:
        got = samutil.ensure_bam_index(bam)
    except Exception as exc:
        claim_raised(ctx, "ensure_bam_index", exc)
        return
    finally:
        samutil.os, samutil.pysam = orig_os, orig_py
    ctx.observe("index", got)
    ctx.observe("rebuilt", len(built))
    ctx.claim(got in files and bool(files[got] >= t_bam), "the index that is used exists and is not older than the alignment file")
    first = long_name if long_name in before else short_name
    fresh = first in before and bool(before[first] >= t_bam)
    # (rebuilding a fresh index would be wasteful, not wrong: only the direction that matters is claimed)
    ctx.claim(fresh or len(built) > 0, "a missing or stale index is rebuilt")
    ctx.cover("stale index", first in before and not fresh)
    ctx.cover("fresh index", fresh)
    ctx.cover("no index", first not in before)


def h_pileup(ctx, ncols):
    """interval_coverages_pileup with bedcov's output text: depth = basecount / span."""
    rows = []
    for i, c in enumerate(["chr1", "chr1", "chr2"]):
        s = ctx.int(f"s{i}", 0, M)
        e = ctx.int(f"e{i}", 0, M)  # zero-width / reversed allowed
        bc = ctx.int(f"bc{i}", 0, 10**7)
        rows.append((c, s, e, "gene 0" if i == 0 else f"G{i}", bc))  # BED fields are tab-separated: a name may hold a blank

    def fake_bedcov(*cmd, **kw):
        out = []
        for c, s, e, g, bc in rows:
            f = [c, str(s), str(e)]
            if ncols >= 4:
                f.append(g)
            if ncols >= 6:
                f += ["0", "+"]
            f.append(str(bc))
            out.append("\t".join(f))
        return "\n".join(out) + "\n"

    class _Pysam:
        bedcov = staticmethod(fake_bedcov)
        SamtoolsError = Exception

    orig = coverage.pysam
    coverage.pysam = _Pysam
    try:
        table = coverage.interval_coverages_pileup("regions.bed", "sample.bam", 0, 1)
    except Exception as exc:
        claim_raised(ctx, "interval_coverages_pileup", exc)
        return
    finally:
        coverage.pysam = orig
    got = list(table.itertuples(index=False))
    ctx.claim(len(got) == 3, "one output row per bin")
    for r, (c, s, e, g, bc) in zip(got, rows):
        ctx.claim(r.chromosome == c and And(r.start == s, r.end == e), "each row keeps its bin's coordinates")
        ctx.claim(r.gene == (g if ncols >= 4 else "-"), "each row keeps its bin's name ('-' without a name column)")
        if bool(e > s):
            ctx.claim(r.depth * (e - s) == bc if not concrete(ctx) else approx(r.depth * (e - s), bc), "depth = base count / bin length")
        else:
            ctx.claim(r.depth == 0, "zero-width or reversed bins get depth 0")
            ctx.cover("zero-width bin")
        if bool(r.depth > 0):
            ctx.claim(approx(r.log2, log2(r.depth)), "log2 = log2(depth)")
        else:
            ctx.claim(r.log2 == NULL_LOG2_COVERAGE, "depth 0 gives log2 -20")
            ctx.cover("uncovered bin")
    ctx.cover("reached")


def h_chunks(ctx, lines):
    cs = ctx.int("chunk_size", 1, 6)
    text = [ln + "\n" for ln in lines]

    class _F(list):
        def __enter__(self):
            return iter(self)

        def __exit__(self, *a):
            return False

    orig_open = getattr(parallel, "open", None)
    parallel.open = lambda fname, *a, **k: _F(text)
    names = []
    made = []
    real_mkstemp = parallel.tempfile.mkstemp

    def mkstemp(*a, **k):  # to_chunks removes its files at interpreter exit, which a worker never reaches
        fd, nm_ = real_mkstemp(*a, **k)
        made.append(nm_)
        return fd, nm_

    class _Tempfile:
        def __getattr__(self, name):
            return getattr(real_tempfile, name)

    real_tempfile = parallel.tempfile
    tf = _Tempfile()
    tf.mkstemp = mkstemp
    parallel.tempfile = tf
    try:
        for nm in parallel.to_chunks("regions.bed", cs):
            with open(nm) as fh:
                names.append(fh.read().splitlines(True))
            parallel.rm(nm)
    except Exception as exc:
        claim_raised(ctx, "to_chunks", exc)
        return
    finally:
        parallel.tempfile = real_tempfile
        for nm_ in made:
            parallel.rm(nm_)
        if orig_open is None:
            del parallel.open
        else:
            parallel.open = orig_open
    want = [ln for ln in text if not ln.startswith("#")]
    flat = [ln for ch in names for ln in ch]
    ctx.observe("sizes", [len(c) for c in names])
    ctx.claim(flat == want, "the chunks concatenated are the regions file minus its comment lines, in order")
    for ch in names[:-1]:
        ctx.claim(len(ch) == cs, "every chunk but the last holds exactly chunk_size lines")
    for ch in names:
        ctx.claim(And(len(ch) <= cs, len(ch) >= 1), "no chunk is empty or larger than chunk_size")
    ctx.cover("several chunks", len(names) > 1)
    ctx.cover("exact multiple", len(want) % 2 == 0 and len(names) == 2)


L5 = ["chr1\t0\t10\tA", "#comment", "chr1\t10\t20\tB", "chr2\t5\t9\tC", "chr2\t9\t30\tD", "#tail"]

HARNESSES = [
    Harness("depth", h_depth, [{"lengths": [1]}, {"lengths": [3]}, {"lengths": [2, 2]}, {"lengths": [3, 3], "tier": "thorough"}], covers=["positive depth", "zero-width bin", "uncovered bin", "read filtered", "read straddles the bin edge", "bin runs past the contig end", "supplementary read counted"], wall_s=300, keep_uf=True),
    Harness("count_rows", h_count_rows, [{"order": list(o)} for o in ("abc", "cab", "bca", "ba")], covers=["reached"], wall_s=240, nonce_fork=False),
    Harness("pileup", h_pileup, [{"ncols": 3}, {"ncols": 4}, {"ncols": 6}], covers=["reached", "zero-width bin", "uncovered bin"], wall_s=240, keep_uf=True, nonce_fork=False),
    Harness("workers", h_workers, [{}], covers=["reached", "a read below the cut-off"], wall_s=240, keep_uf=True, nonce_fork=False),
    Harness("bam_index", h_bam_index, [{"ext": "bam"}, {"ext": "cram"}], covers=["stale index", "fresh index", "no index"], wall_s=120),
    Harness("chunks", h_chunks, [{"lines": L5}, {"lines": L5[:3]}, {"lines": ["#only"]}, {"lines": L5 + ["chrX\t1\t2\tE"], "tier": "thorough"}], covers=["several chunks", "exact multiple"], wall_s=120),
]
