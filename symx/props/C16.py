"""C16 -- gene-level grouping yields each gene's own bins, each bin exactly once."""
import numpy as np

from symx.api import *
from symx.props.common import *

from cnvlib import reports, params

PROPERTY = "C16"
FUNCTIONS = [
    "cnvlib.cnary.CopyNumArray.by_gene/squash_genes/drop_low_coverage/shift_xx",
    "skgenome.gary.GenomicArray._get_gene_map/by_chromosome/by_ranges",
    "cnvlib.reports.do_genemetrics/gene_metrics_by_gene/gene_metrics_by_segment/group_by_genes/do_breaks/get_gene_intervals/get_breakpoints",
    "cnvlib.segmetrics.segment_mean",
]
BOUNDS = {
    "bins": "quick: 5 bins on one chromosome or 3 + 3 on two; thorough: 6 / 4 + 3",
    "gene layout": "every bin's name is a solver-chosen member of {G1, G2, Antitarget, '-', 'CGH'} under the statement's contiguity precondition (the first two bins' names are the configuration, to spread the layouts over the cores)",
    "values": "log2, depth symbolic reals; weights symbolic in (0, 1]; threshold symbolic >= 0; coordinates symbolic, sorted, disjoint; segment boundary symbolic",
    "index": "default and filtered (non-contiguous labels) row index",
}
NOT_COVERED = ["bins naming several genes ('G1,G2'): outside the statement's precondition", "squash_genes' default summary (biweight location numerics, see C19): a mean is passed instead", "more than 2 named genes / 7 bins"]
STUBS = []
ASSUMPTIONS = [  # zero weights: see the zero_weight configurations of genemetrics
"bins are sorted; weights are positive (CNVkit weights lie in (0, 1])"]

POOL = ["G1", "G2", "Antitarget", "-", "CGH"]
IGNORED = ("-", ".", "CGH", "Antitarget", "Background")
M = 10**6


def layout(ctx, chroms, first):
    """Gene name per bin: `first` fixes the leading names, the rest is solver-chosen;
    prunes layouts that violate the contiguity precondition."""
    names = list(first) + [ctx.choice(f"g{i}", POOL) for i in range(len(first), len(chroms))]
    for g in ("G1", "G2"):
        pos = [i for i, nm in enumerate(names) if nm == g]
        if not pos:
            continue
        ok = len({chroms[i] for i in pos}) == 1 and all(names[i] == g or names[i] in IGNORED for i in range(pos[0], pos[-1] + 1))
        ctx.assume(ok)
    return names


def expected_groups(chroms, names):
    """The statement: per chromosome, genes in order with [first, last] bin, and
    Antitarget groups for the stretches before, between and after."""
    out = []
    for c in sorted(set(chroms), key=chroms.index):
        idx = [i for i in range(len(chroms)) if chroms[i] == c]
        genes = []
        for i in idx:
            if names[i] not in IGNORED and names[i] not in [g for g, _, _ in genes]:
                pos = [j for j in idx if names[j] == names[i]]
                genes.append((names[i], pos[0], pos[-1]))
        cur = idx[0]
        for g, f, l in genes:
            if cur < f:
                out.append(("Antitarget", list(range(cur, f))))
            out.append((g, list(range(f, l + 1))))
            cur = l + 1
        if cur <= idx[-1]:
            out.append(("Antitarget", list(range(cur, idx[-1] + 1))))
    return out


def sym_bins(ctx, chroms, names, depth=True, depth_lo=0.01, weight_lo=0.001):
    n = len(chroms)
    cols = {"chromosome": chroms, "start": [], "end": [], "gene": names, "log2": [], "weight": []}
    if depth:
        cols["depth"] = []
    prev = {}
    for i, c in enumerate(chroms):
        s = ctx.int(f"s{i}", 0, M)
        e = ctx.int(f"e{i}", 0, M)
        ctx.assume(s < e)
        if c in prev:
            ctx.assume(prev[c] <= s)
        prev[c] = e
        cols["start"].append(s)
        cols["end"].append(e)
        cols["log2"].append(ctx.real(f"l{i}", -30, 10))
        cols["weight"].append(ctx.real(f"w{i}", weight_lo, 1))
        if depth:
            cols["depth"].append(ctx.real(f"d{i}", depth_lo, 1000))
    return cols


def h_by_gene(ctx, chroms, first, filtered=False):
    names = layout(ctx, chroms, first)
    n = len(chroms)
    cna = make_cna({"chromosome": chroms, "start": list(range(0, 100 * n, 100)), "end": list(range(100, 100 * n + 100, 100)), "gene": names, "log2": [0.0] * n})
    labels = list(range(n))
    if filtered:
        # a filtered array keeps the gaps in its row index: an extra row (the first one, or one
        # in the middle of the first chromosome) is dropped after construction
        k = 0 if filtered in (True, "lead") else 2
        ch = chroms[:k] + [chroms[min(k, n - 1)] if k else chroms[0]] + chroms[k:]
        nm = names[:k] + ["-"] + names[k:]
        cna = make_cna({"chromosome": ch, "start": list(range(0, 100 * (n + 1), 100)), "end": list(range(50, 100 * (n + 1) + 50, 100)), "gene": nm, "log2": [0.0] * (n + 1)})
        cna = cna[[i != k for i in range(n + 1)]]
        labels = [i for i in range(n + 1) if i != k]
    got = [(g, list(sub.data.index)) for g, sub in cna.by_gene()]
    want = [(g, [labels[i] for i in idx]) for g, idx in expected_groups(chroms, names)]
    ctx.observe("groups", [[g, idx] for g, idx in got])
    ctx.claim(got == want, "by_gene yields each gene's bins from first to last and the Antitarget stretches between, before and after", info=str((names, got, want)))
    seen = [i for _, idx in got for i in idx]
    ctx.claim(sorted(seen) == labels and len(seen) == len(set(seen)), "every bin is yielded exactly once")
    ctx.cover("gene with interleaved antitarget", any(g in ("G1", "G2") and len(idx) >= 3 and any(names[labels.index(i)] in IGNORED for i in idx) for g, idx in got))
    ctx.cover("trailing single bin", len(got) > 1 and got[-1][0] == "Antitarget" and len(got[-1][1]) == 1)
    ctx.cover("two genes adjacent", any(a[0] in ("G1", "G2") and b[0] in ("G1", "G2") for a, b in zip(got[:-1], got[1:])))


def h_genemetrics(ctx, chroms, first, min_probes, skip_low, sex=(False, True), zero_depth=False, zero_weight=False):
    """sex = (male reference, female sample): the sex adjustment options.  chrX bins are first
    brought to the autosomal level for the sample's sex (shift_xx, C15); everything else is then
    decided on the shifted values."""
    names = layout(ctx, chroms, first)
    cols = sym_bins(ctx, chroms, names, depth_lo=0 if zero_depth else 0.01, weight_lo=0 if zero_weight else 0.001)
    thr = ctx.real("thr", 0, 5)
    cna = make_cna(cols)
    if zero_weight:
        # single bins may weigh nothing, a whole gene may not (its weighted mean would be undefined)
        for g, idx in expected_groups(chroms, names):
            if g != "Antitarget":
                ctx.assume(Sum([cols["weight"][i] for i in idx]) > 0)
    hapx, female = sex
    level = (1 if female else 0) if hapx else (0 if female else -1)
    raw = cols["log2"]
    cols = dict(cols, log2=[(l - level) if c == "chrX" else l for c, l in zip(chroms, raw)])
    try:
        table = reports.do_genemetrics(cna, None, thr, min_probes, skip_low, hapx, female)
    except Exception as exc:
        claim_raised(ctx, "do_genemetrics", exc)
        return
    got = {r.gene: r for r in table.itertuples(index=False)}
    ctx.claim(len(got) == len(table), "one row per gene")
    ctx.observe("genes", sorted(got))
    low = params.NULL_LOG2_COVERAGE - params.MIN_REF_COVERAGE
    for g, idx in expected_groups(chroms, names):
        if g == "Antitarget":
            ctx.claim(g not in got, "intergenic stretches are not reported")
            continue
        if skip_low:
            use = [i for i in idx if not bool(Or(cols["log2"][i] < low, cols["depth"][i] == 0))]
        else:
            use = idx
        if use and zero_weight and bool(Sum([cols["weight"][i] for i in use]) == 0):
            continue  # every weight zero: the weighted mean is undefined, outside the claim
        if use and zero_weight:
            ctx.cover("zero-weight bin in a gene", Or(*[cols["weight"][i] == 0 for i in use]))
        if use:
            W = Sum([cols["weight"][i] for i in use])
            mean = Sum([cols["weight"][i] * cols["log2"][i] for i in use]) / W
            reaches = Abs(mean) >= thr
        else:
            mean, reaches = None, False
        want_row = And(reaches, len(idx) >= min_probes) if min_probes else reaches
        if g in got:
            ctx.claim(want_row, f"a reported gene reaches the threshold and has at least min_probes bins")
            r = got[g]
            ctx.claim(And(r.start == cols["start"][idx[0]], r.end == cols["end"][idx[-1]]), "reported gene has its true start and end")
            ctx.claim(r.probes == len(idx), "reported gene has its true bin count")
            ctx.claim(approx(r.weight, Sum([cols["weight"][i] for i in idx])), "reported weight is the sum over the gene's bins")
            Wall = Sum([cols["weight"][i] for i in idx])
            ctx.claim(approx(r.depth * Wall, Sum([cols["weight"][i] * cols["depth"][i] for i in idx])) if not concrete(ctx) else approx(r.depth, Sum([cols["weight"][i] * cols["depth"][i] for i in idx]) / Wall), "reported depth is the weight-averaged depth")
            if mean is not None:
                ctx.claim(approx(r.log2, mean), "reported log2 is the weighted mean of the gene's bins")
            ctx.cover("gene reported")
        else:
            ctx.claim(Not(want_row), "every gene reaching the threshold with enough bins is reported")
            ctx.cover("gene not reported")
    if skip_low:
        ctx.cover("low bin skipped", Or(*[c < low for c in cols["log2"]]))
        if zero_depth:
            ctx.cover("zero-depth bin skipped", Or(*[d == 0 for d in cols["depth"]]))


def h_genemetrics_seg(ctx, chroms, first):
    """With segments: for each segment reaching the threshold the part of every gene inside it."""
    names = layout(ctx, chroms, first)
    cols = sym_bins(ctx, chroms, names)
    n = len(chroms)
    thr = ctx.real("thr", 0, 5)
    k = ctx.int("k", 1, n - 1)  # the boundary: bins [0,k) and [k,n)
    k = ctx.concretize(k.t) if not concrete(ctx) else k
    segl = [ctx.real("sl0", -5, 5), ctx.real("sl1", -5, 5)]
    cna = make_cna(cols)
    segs = make_cna(
        {
            "chromosome": [chroms[0]] * 2,
            "start": [cols["start"][0], cols["start"][k]],
            "end": [cols["end"][k - 1], cols["end"][n - 1]],
            "gene": ["-", "-"],
            "log2": segl,
            "probes": [k, n - k],
            "weight": [1.0, 1.0],
        }
    )
    try:
        table = reports.do_genemetrics(cna, segs, thr, 1, False, False, True)
    except Exception as exc:
        claim_raised(ctx, "do_genemetrics(segments)", exc)
        return
    rows = list(table.itertuples(index=False))
    ctx.observe("rows", [[r.gene, r.start, r.end] for r in rows])
    want = []
    for si, (a, b) in enumerate(((0, k), (k, n))):
        reaches = bool(Abs(segl[si]) >= thr)
        if not reaches:
            continue
        sub_names = names[a:b]
        for g, idx in expected_groups([chroms[0]] * (b - a), sub_names):
            if g == "Antitarget":
                continue
            idx = [a + i for i in idx]
            want.append((g, idx, si))
    ctx.claim(len(rows) == len(want), "one row per gene part inside each segment that reaches the threshold")
    if len(rows) == len(want):
        for r, (g, idx, si) in zip(rows, want):
            ctx.claim(r.gene == g, "gene name")
            ctx.claim(And(r.start == cols["start"][idx[0]], r.end == cols["end"][idx[-1]]), "the gene part inside the segment has its own start and end")
            ctx.claim(r.probes == len(idx), "bin count of the gene part")
            ctx.claim(approx(r.log2, segl[si]), "log2 is the segment's log2")
            ctx.claim(r.segment_probes == [k, n - k][si], "segment_probes is the segment's")
    ctx.cover("gene split by the boundary", len({g for g, _, _ in want}) < len(want))


def h_squash(ctx, chroms, first):
    names = layout(ctx, chroms, first)
    cols = sym_bins(ctx, chroms, names, depth=False)
    cna = make_cna(cols)
    try:
        out = cna.squash_genes(summary_func=lambda v: Sum(list(v)) / len(v))
    except Exception as exc:
        claim_raised(ctx, "squash_genes", exc)
        return
    rows = list(out.data.itertuples(index=False))
    ctx.observe("rows", [[r.gene, r.start, r.end] for r in rows])
    want = []
    for g, idx in expected_groups(chroms, names):
        if g == "Antitarget":
            want += [(names[i], [i]) for i in idx]
        else:
            want.append((g, idx))
    ctx.claim(len(rows) == len(want), "squash_genes returns one row per gene (other bins unchanged)")
    if len(rows) == len(want):
        for r, (g, idx) in zip(rows, want):
            ctx.claim(r.gene == g and And(r.start == cols["start"][idx[0]], r.end == cols["end"][idx[-1]]), "squashed gene spans its first to its last bin")
    ctx.cover("squashed", len(rows) < len(chroms))


def h_breaks(ctx, chroms, first, min_probes):
    names = layout(ctx, chroms, first)
    cols = sym_bins(ctx, chroms, names, depth=False)
    n = len(chroms)
    k = ctx.int("k", 1, n - 1)
    k = ctx.concretize(k.t) if not concrete(ctx) else k
    segl = [ctx.real("sl0", -5, 5), ctx.real("sl1", -5, 5)]
    cna = make_cna(cols)
    segs = make_cna({"chromosome": [chroms[0]] * 2, "start": [cols["start"][0], cols["start"][k]], "end": [cols["start"][k], cols["end"][n - 1]], "gene": ["-", "-"], "log2": segl})
    try:
        table = reports.do_breaks(cna, segs, min_probes)
    except Exception as exc:
        claim_raised(ctx, "do_breaks", exc)
        return
    got = {r.gene: r for r in table.itertuples(index=False)}
    ctx.observe("genes", sorted(got))
    for g in ("G1", "G2"):
        pos = [i for i, nm in enumerate(names) if nm == g]
        left = len([i for i in pos if i < k])
        right = len([i for i in pos if i >= k])
        want = left >= min_probes and right >= min_probes and left > 0 and right > 0
        ctx.claim((g in got) == want, "breaks lists exactly the genes with at least min_probes bins on each side of the boundary")
        if g in got and want:
            ctx.claim(And(got[g].probes_left == left, got[g].probes_right == right), "bin counts left and right of the breakpoint")
            ctx.claim(approx(got[g].change, segl[1] - segl[0]), "change is the difference of the two segments' log2")
            ctx.cover("break reported")
    ctx.cover("no break", not got)


def _firsts(k=2):
    import itertools

    return [list(t) for t in itertools.product(POOL, repeat=k)]


def _cfgs(lay_quick, lay_thorough, extra=None):
    out = []
    for lay, tier in [(l, "quick") for l in lay_quick] + [(l, "thorough") for l in lay_thorough]:
        for first in _firsts():
            for ex in extra or [{}]:
                c = dict({"chroms": lay, "first": first}, **ex)
                if tier == "thorough" or ex.get("_t"):
                    c["tier"] = "thorough"
                c.pop("_t", None)
                out.append(c)
    return out


ONE5 = ["chr1"] * 5
ONE4 = ["chr1"] * 4
ONE6 = ["chr1"] * 6
TWO33 = ["chr1"] * 3 + ["chr2"] * 3
TWO43 = ["chr1"] * 4 + ["chr2"] * 3

HARNESSES = [
    Harness(
        "by_gene",
        h_by_gene,
        _cfgs([ONE5], [ONE6, TWO43], [{"filtered": False}, {"filtered": "mid"}, {"filtered": "lead", "_t": True}]) + _cfgs([TWO33], [], [{"filtered": False}, {"filtered": "lead"}, {"filtered": "mid", "_t": True}]),
        covers=["gene with interleaved antitarget", "trailing single bin", "two genes adjacent"],
        wall_s=240,
        thorough_wall_s=1500,
    ),
    Harness(
        "genemetrics",
        h_genemetrics,
        _cfgs([ONE4], [ONE5, ["chr1"] * 2 + ["chr2"] * 2], [{"min_probes": 1, "skip_low": False}, {"min_probes": 2, "skip_low": True}, {"min_probes": 3, "skip_low": False, "_t": True}])
        + [dict(c, zero_depth=True) for c in _cfgs([["chr1"] * 3], [ONE4], [{"min_probes": 1, "skip_low": True}]) if c["first"][0] in ("G1", "Antitarget")]
        + [dict(c, zero_weight=True) for c in _cfgs([["chr1"] * 3], [ONE4], [{"min_probes": 1, "skip_low": False}]) if c["first"][0] in ("G1", "Antitarget")]
        + _cfgs([["chr1", "chrX", "chrX"]], [["chr1", "chr1", "chrX", "chrX"]], [{"min_probes": 1, "skip_low": False, "sex": (False, False)}, {"min_probes": 1, "skip_low": True, "sex": (True, True), "_t": True}, {"min_probes": 1, "skip_low": False, "sex": (True, False), "_t": True}]),
        covers=["gene reported", "gene not reported", "low bin skipped", "zero-depth bin skipped", "zero-weight bin in a gene"],
        wall_s=240,
        thorough_wall_s=1500,
    ),
    Harness("genemetrics_segments", h_genemetrics_seg, _cfgs([ONE4], [ONE5]), covers=["gene split by the boundary"], wall_s=240, thorough_wall_s=1500),
    Harness("squash_genes", h_squash, _cfgs([ONE4], [ONE5, TWO33]), covers=["squashed"], wall_s=240, thorough_wall_s=1500),
    Harness("breaks", h_breaks, _cfgs([ONE4], [ONE5], [{"min_probes": 1}, {"min_probes": 2}]), covers=["break reported", "no break"], wall_s=240, thorough_wall_s=1500),
]
