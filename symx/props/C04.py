"""C04 -- fix subtracts the reference bin-for-bin by coordinate and normalises soundly."""
import numpy as np
import pandas as pd

from symx.api import *
from symx.props.common import *
from symx.props.C19 import median_term, mirror_pad, wing_of

from cnvlib import fix, params, descriptives

PROPERTY = "C04"
FUNCTIONS = [
    "cnvlib.fix.do_fix/load_adjust_coverages/match_ref_to_sample/mask_bad_bins/apply_weights",
    "cnvlib.fix.center_by_window/get_edge_bias/edge_losses/edge_gains",
    "cnvlib.cnary.CopyNumArray.center_all/drop_low_coverage/residuals, skgenome.gary.GenomicArray.add/sort/keep_columns",
    "cnvlib.smoothing.rolling_median (through the window model)",
]
BOUNDS = {
    "matching": "reference of 4 bins with concrete coordinates; one bin at a time has fully symbolic log2/spread/depth/gc (the others concrete, passing); sample = all / subset / permuted rows / one absent / duplicated coordinates; also the same start/end tiling on two chromosomes with the reference's chromosomes listed in the other order, and with the sample's second chromosome absent from the reference",
    "arithmetic": "3 target (+1 on chrX in the with_x configurations) + 0-2 antitarget bins on two autosomes, every reference bin passing the filters (pooled: log2 in [0.05, 0.95], spread in [0.001, 1]; or flat), sample log2 in [-3, 3] (no null coverage: one path through the masks), corrections off",
    "row permutation": "do_fix on 4 target + 0-2 antitarget bins with symbolic sample log2 in [-3, 3], concrete passing reference (gc/rmask distinct or tied), every subset of corrections in the thorough tier, rows of target/antitarget/reference reversed, rotated or with the first two swapped, against the same call on sorted rows",
    "corrections": "center_by_window on 4 bins with a symbolic covariate (distinct values), window fraction 0.5 / 0.99; edge formulas with symbolic bin sizes and gaps",
}
NOT_COVERED = [
    "the numeric value of biweight_midvariance inside the weights: it is replaced by a solver-chosen member of {0, 0.3, 1.5} (its own numerics: C19)",
    "the values produced by whole-pipeline runs with corrections on (decomposed: the corrections are checked on their own; the pipeline with corrections on is only compared with itself under row permutations)",
    "clustered references (do_cluster)",
]
STUBS = ["descriptives.biweight_midvariance -> solver-chosen value from {0, 0.3, 1.5}"]
ASSUMPTIONS = ["arithmetic harness: tables arrive sorted by the real GenomicArray.sort, as tabio.read delivers them (unsorted rows: row_permutation and match_filter harnesses)"]

REF_BINS = [("chr1", 100, 300, "A"), ("chr1", 300, 700, "A"), ("chr2", 50, 250, "B"), ("chr2", 1000, 9000, "Antitarget")]


def ref_table(ctx, bins, with_gc=True, ok_only=False, sym_bin=None, flat=False):
    """ok_only: every bin passes the filters (pooled reference: log2 in [0.05, 0.95] so that it is
    visibly not a flat reference, spread in [0.001, 1]; flat: log2 0, spread 0).  Otherwise one
    bin (`sym_bin`) has fully symbolic values and the others concrete passing ones: the filters
    act on each bin independently, and five comparisons per bin fork 2^5 ways."""
    n = len(bins)
    cols = {"chromosome": [b[0] for b in bins], "start": [b[1] for b in bins], "end": [b[2] for b in bins], "gene": [b[3] for b in bins]}
    if ok_only:
        if flat:
            cols["log2"] = [0.0] * n
            cols["spread"] = [0.0] * n
        else:
            cols["log2"] = [ctx.real(f"rl{i}", 0.05, 0.95) for i in range(n)]
            cols["spread"] = [ctx.real(f"rs{i}", 0.001, 1) for i in range(n)]
        cols["depth"] = [10.0] * n
        if with_gc:
            cols["gc"] = [0.5] * n
    else:
        cols["log2"] = [0.25, -0.5, 1.5, 0.125][:n]
        cols["spread"] = [0.25, 0.5, 0.125, 0.75][:n]
        cols["depth"] = [10.0, 20.0, 5.0, 40.0][:n]
        if with_gc:
            cols["gc"] = [0.5, 0.4, 0.6, 0.35][:n]
        i = sym_bin
        cols["log2"][i] = ctx.real(f"rl{i}", -10, 10)
        cols["spread"][i] = ctx.real(f"rs{i}", 0, 3)
        cols["depth"][i] = ctx.real(f"rd{i}", 0, 1000)
        if with_gc:
            cols["gc"][i] = ctx.real(f"rg{i}", 0, 1)
    return cols


def ref_ok(cols, i):
    c = And(cols["log2"][i] >= params.MIN_REF_COVERAGE, cols["log2"][i] <= -params.MIN_REF_COVERAGE, cols["spread"][i] <= params.MAX_REF_SPREAD, cols["depth"][i] != 0)
    if "gc" in cols:
        c = And(c, cols["gc"][i] >= 0.3, cols["gc"][i] <= 0.7)
    return c


REF_TILED = [("chr1", 100, 300, "A"), ("chr1", 300, 700, "A"), ("chr2", 100, 300, "B"), ("chr2", 300, 700, "B")]


def h_match(ctx, layout, with_gc, sym_bin=0):
    """load_adjust_coverages, corrections off: which bins are kept.  The `t_*` layouts use the same
    start/end tiling on both chromosomes (only the chromosome tells the bins apart): `t_unsorted_ref`
    lists the reference's chromosomes in the other order (rows are matched by coordinate, never by
    position), `t_foreign` puts the sample's second pair of bins on a chromosome the reference lacks."""
    REF_BINS = REF_TILED if layout.startswith("t_") else globals()["REF_BINS"]
    rcols = ref_table(ctx, REF_BINS, with_gc, sym_bin=sym_bin)
    if layout == "t_unsorted_ref":
        order = [2, 3, 0, 1]
        ref = make_cna({k: [v[i] for i in order] for k, v in rcols.items()}, {"sample_id": "ref"})
    else:
        ref = make_cna(rcols, {"sample_id": "ref"})
        ref.sort()
    # the sample: rows of the reference by index (permuted / subset), optionally a foreign or duplicated bin
    idx = {"all": [0, 1, 2, 3], "subset": [0, 2], "permuted": [2, 0, 3, 1], "absent": [0, 1], "dup": [0, 1, 1], "t_unsorted_ref": [0, 1, 2, 3], "t_all": [0, 1, 2, 3], "t_foreign": [0, 1, 2, 3]}[layout]
    sb = [REF_BINS[i] for i in idx]
    if layout == "t_foreign":
        sb = [b if b[0] == "chr1" else ("chr3",) + b[1:] for b in sb]
    if layout == "absent":
        sb = sb + [("chr1", 300, 701, "A")]
    n = len(sb)
    sl = [ctx.real(f"sl{i}", -10, 10) for i in range(n)]
    samp = make_cna({"chromosome": [b[0] for b in sb], "start": [b[1] for b in sb], "end": [b[2] for b in sb], "gene": [b[3] for b in sb], "log2": list(sl), "depth": [10.0] * n}, {"sample_id": "S"})
    if layout != "permuted":
        samp.sort()
    raised = None
    try:
        out, refm = fix.load_adjust_coverages(samp, ref, False, False, False, False, None)
    except ValueError as exc:
        raised = str(exc)
    except Exception as exc:
        claim_raised(ctx, "load_adjust_coverages", exc)
        return
    if layout in ("absent", "dup", "t_foreign"):
        ctx.claim(raised is not None, "a sample bin absent from the reference, or duplicated coordinates, is refused")
        ctx.cover("refused")
        return
    ctx.claim(raised is None, "matching bins are accepted")
    if raised is not None:
        return
    got = [(r.chromosome, r.start, r.end) for r in out.data.itertuples(index=False)]
    ctx.observe("kept", [list(g) for g in got])
    srows = [(r.chromosome, r.start, r.end) for r in samp.data.itertuples(index=False)]
    want = []
    for (c, s, e) in srows:
        ri = [k for k, b in enumerate(REF_BINS) if (b[0], b[1], b[2]) == (c, s, e)][0]
        if bool(ref_ok(rcols, ri)):
            want.append((c, s, e))
    want.sort()  # chr1 < chr2: plain tuple order is genomic order here
    ctx.claim(got == want, "exactly the sample bins whose coordinate-matched reference bin passes the filters are kept, in genomic order")
    gotr = [(r.chromosome, r.start, r.end) for r in refm.data.itertuples(index=False)]
    ctx.claim(gotr == want, "the matched reference rows are the same bins, matched by coordinate and never by row position")
    want_l2 = [rcols["log2"][[k for k, b in enumerate(REF_BINS) if (b[0], b[1], b[2]) == w][0]] for w in want]
    ctx.claim(len(refm) == len(want) and And(*[x == y for x, y in zip(list(refm.data["log2"]), want_l2)]), "each matched reference row carries the log2 of the reference bin with those coordinates")
    ctx.cover("dropped a bad bin", len(want) < len(srows))
    ctx.cover("kept all", len(want) == len(srows))


TGT = [("chr1", 100, 300, "A"), ("chr1", 300, 700, "A"), ("chr2", 50, 250, "B")]
ANTI = [("chr1", 1000, 9000, "Antitarget"), ("chr2", 1000, 5000, "Antitarget")]


def run_fix(ctx, tcols, acols, rcols, var_choice, flags=(False, False, False), sort_ref=True):
    tgt = make_cna(tcols, {"sample_id": "S"})
    anti = make_cna(acols, {"sample_id": "S"})
    ref = make_cna(rcols, {"sample_id": "ref"})
    if sort_ref:
        ref.sort()
    real = descriptives.biweight_midvariance
    descriptives.biweight_midvariance = lambda a, **k: var_choice
    try:
        return fix.do_fix(tgt, anti, ref, None, *flags)
    finally:
        descriptives.biweight_midvariance = real


def h_arith(ctx, n_anti, shift=False, flat=False, case=None, bad_bin=False, with_x=False):
    """with_x: one more target bin, on chrX -- it is corrected like any other bin but does not
    take part in the centring ('median of the autosomal chromosome medians is 0')."""
    global TGT
    tgt0 = TGT
    if with_x:
        TGT = TGT + [("chrX", 100, 300, "C")]
    try:
        return _h_arith(ctx, n_anti, shift, flat, case, bad_bin)
    finally:
        TGT = tgt0


def _h_arith(ctx, n_anti, shift=False, flat=False, case=None, bad_bin=False):
    bins = TGT + ANTI[:n_anti]
    rcols = ref_table(ctx, bins, with_gc=False, ok_only=True, flat=flat)
    bad = None
    if bad_bin:
        # one more target bin, in the middle of the table, whose reference bin fails the spread
        # filter: it is dropped, and the surviving rows keep non-contiguous row labels
        bad = ("chr1", 700, 900, "A")
    nt = len(TGT)
    sl = [ctx.real(f"sl{i}", -3, 3) for i in range(len(bins))]
    apply_case(ctx, case)
    var = ctx.choice("bivar", [0.0, 0.3, 1.5]) if not concrete(ctx) else [0.0, 0.3, 1.5][ctx.int("bivar", 0, 2)]

    def cols_of(bs, logs):
        return {"chromosome": [b[0] for b in bs], "start": [b[1] for b in bs], "end": [b[2] for b in bs], "gene": [b[3] for b in bs], "log2": list(logs), "depth": [10.0] * len(bs)}

    tcols = cols_of(TGT, sl[:nt])
    rc = rcols
    if bad is not None:
        tcols = cols_of(TGT[:2] + [bad] + TGT[2:], sl[:2] + [0.5] + sl[2:nt])
        rc = {k: list(v) for k, v in rcols.items()}
        for k, v in (("chromosome", bad[0]), ("start", bad[1]), ("end", bad[2]), ("gene", bad[3]), ("log2", 0.5), ("spread", 2.0), ("depth", 10.0)):
            rc[k].insert(2, v)
    try:
        out = run_fix(ctx, tcols, cols_of(ANTI[:n_anti], sl[nt:]), rc, var)
    except Exception as exc:
        claim_raised(ctx, "do_fix", exc)
        return
    rows = {(r.chromosome, r.start, r.end): r for r in out.data.itertuples(index=False)}
    ctx.claim(len(rows) == len(bins) == len(out), "every bin whose reference bin passes the filters is emitted once")
    ordered = [(r.chromosome, r.start) for r in out.data.itertuples(index=False)]
    ctx.claim(ordered == sorted(ordered), "output is in genomic order")
    res = []
    for i, b in enumerate(bins):
        r = rows.get((b[0], b[1], b[2]))
        if r is None:
            return
        res.append(r)
    ctx.observe("log2", [r.log2 for r in res])
    # differences within a class
    for cls in (range(nt), range(nt, len(bins))):
        cls = list(cls)
        for a, b in zip(cls[:-1], cls[1:]):
            ctx.claim(approx(res[a].log2 - res[b].log2, (sl[a] - rcols["log2"][a]) - (sl[b] - rcols["log2"][b])), "within a class log2 = sample log2 - reference log2 + one constant")
    # centred: median of the autosomal chromosome medians is 0
    bych = {}
    for i, b in enumerate(bins):
        if b[0] in ("chrX", "chrY"):
            continue
        bych.setdefault(b[0], []).append(res[i].log2)
    ctx.claim(approx(median_term([median_term(v) for v in bych.values()]), 0), "the output is centred: the median of the autosomal chromosome medians is 0")
    # weights
    for i, r in enumerate(res):
        ctx.claim(And(r.weight >= 0.0001 - 1e-12, r.weight <= 1), "weights lie in [0.0001, 1]")
    for cls in (range(nt), range(nt, len(bins))):
        for a in cls:
            for b in cls:
                if a != b:
                    sa, sb_ = bins[a][2] - bins[a][1], bins[b][2] - bins[b][1]
                    if sa <= sb_:
                        ctx.claim(Implies(rcols["spread"][a] >= rcols["spread"][b], res[a].weight <= res[b].weight + 1e-12), "weight never decreases with bin size nor increases with reference spread")
    if shift:
        c = ctx.real("scale", -2, 2)
        out2 = run_fix(ctx, cols_of(TGT, [x + c for x in sl[:nt]]), cols_of(ANTI[:n_anti], [x + c for x in sl[nt:]]), rcols, var)
        rows2 = {(r.chromosome, r.start, r.end): r for r in out2.data.itertuples(index=False)}
        for i, b in enumerate(bins):
            r2 = rows2.get((b[0], b[1], b[2]))
            ctx.claim(r2 is not None and And(approx(r2.log2, res[i].log2), approx(r2.weight, res[i].weight)), "the output is unchanged by rescaling the sample's depth (adding a constant to its log2)")
        ctx.cover("rescaled")
    ctx.cover("reached")


PERMS = {"rev": lambda xs: xs[::-1], "rot": lambda xs: xs[1:] + xs[:1], "swap01": lambda xs: [xs[1], xs[0]] + xs[2:]}


def h_perm(ctx, n_anti, flags, perm, ties=False, case=None):
    """do_fix on the same bins with the rows of every input permuted: same output (statement:
    'unchanged by ... permuting the rows of any input', 'in genomic order', 'matched by (chromosome,
    start, end), never by row position').  Corrections on or off; the sample's log2 is symbolic."""
    tb = TGT + [("chr2", 300, 420, "B")]
    bins = tb + ANTI[:n_anti]
    n, nt = len(bins), len(tb)
    rc = {"chromosome": [b[0] for b in bins], "start": [b[1] for b in bins], "end": [b[2] for b in bins], "gene": [b[3] for b in bins]}
    rc["log2"] = [0.25, 0.5, 0.75, 0.125, 0.375, 0.625][:n]
    rc["spread"] = [0.25, 0.5, 0.125, 0.75, 0.375, 0.25][:n]
    rc["depth"] = [10.0] * n
    rc["gc"] = ([0.5, 0.4, 0.5, 0.4, 0.5, 0.5] if ties else [0.5, 0.4, 0.6, 0.35, 0.45, 0.55])[:n]
    rc["rmask"] = ([0.25, 0.25, 0.5, 0.5, 0.125, 0.125] if ties else [0.25, 0.5, 0.125, 0.375, 0.75, 0.0625])[:n]
    sl = [ctx.real(f"sl{i}", -3, 3) for i in range(n)]
    apply_case(ctx, case)

    def cols_of(idx):
        return {"chromosome": [bins[i][0] for i in idx], "start": [bins[i][1] for i in idx], "end": [bins[i][2] for i in idx], "gene": [bins[i][3] for i in idx], "log2": [sl[i] for i in idx], "depth": [10.0] * len(idx)}

    def rcols_of(idx):
        return {k: [v[i] for i in idx] for k, v in rc.items()}

    f = PERMS[perm]
    ti, ai, ri = list(range(nt)), list(range(nt, n)), list(range(n))
    outs = []
    for (t_idx, a_idx, r_idx) in ((ti, ai, ri), (f(ti), f(ai) if len(ai) > 1 else ai, f(ri))):
        try:
            outs.append(run_fix(ctx, cols_of(t_idx), cols_of(a_idx), rcols_of(r_idx), 0.3, flags, sort_ref=False))
        except Exception as exc:
            claim_raised(ctx, "do_fix", exc)
            return
    a, b = outs
    ka = [(r.chromosome, r.start, r.end) for r in a.data.itertuples(index=False)]
    kb = [(r.chromosome, r.start, r.end) for r in b.data.itertuples(index=False)]
    ctx.observe("rows_sorted_input", [list(k) for k in ka])
    ctx.observe("rows_permuted_input", [list(k) for k in kb])
    ctx.claim(kb == sorted(kb), "output is in genomic order whatever the order of the input rows")
    ctx.claim(sorted(ka) == sorted(kb) == sorted((x[0], x[1], x[2]) for x in bins), "the same bins are emitted whatever the order of the input rows")
    if sorted(ka) != sorted(kb):
        return
    rb = {(r.chromosome, r.start, r.end): r for r in b.data.itertuples(index=False)}
    ctx.observe("log2_sorted_input", [r.log2 for r in a.data.itertuples(index=False)])
    ctx.observe("log2_permuted_input", [rb[k].log2 for k in ka])
    for r in a.data.itertuples(index=False):
        q = rb[(r.chromosome, r.start, r.end)]
        ctx.claim(approx(r.log2, q.log2), "each bin's log2 is unchanged by permuting the rows of the inputs (reference matched by coordinate, never by row position)")
        ctx.claim(approx(r.weight, q.weight), "each bin's weight is unchanged by permuting the rows of the inputs")
    ctx.cover("reached")


def h_window(ctx, fraction, case=None):
    """center_by_window: log2' = log2 - rolling median over the covariate order; genomic order restored."""
    bins = [("chr1", 100, 300), ("chr1", 300, 700), ("chr2", 50, 250), ("chr2", 400, 900)]
    n = len(bins)
    logs = [ctx.real(f"l{i}", -10, 10) for i in range(n)]
    key = [ctx.real(f"k{i}", 0, 1) for i in range(n)]
    for i in range(n):
        for j in range(i + 1, n):
            ctx.assume(key[i] != key[j])
    apply_case(ctx, case)
    cna = make_cna({"chromosome": [b[0] for b in bins], "start": [b[1] for b in bins], "end": [b[2] for b in bins], "gene": ["g"] * n, "log2": list(logs)})
    try:
        out = fix.center_by_window(cna, fraction, pd.Series(obj_col(key)))
    except Exception as exc:
        claim_raised(ctx, "center_by_window", exc)
        return
    got = list(out.data.itertuples(index=False))
    ctx.observe("log2", [r.log2 for r in got])
    ctx.claim([(r.chromosome, r.start) for r in got] == [(b[0], b[1]) for b in bins], "the bins come back in genomic order")
    # independent oracle: order by covariate (decided by forking), mirror-pad, rolling median
    order = sorted(range(n), key=lambda i: _K(key[i]))
    vals = [logs[i] for i in order]
    wing = wing_of(fraction, n)
    pad = mirror_pad(vals, wing)
    for pos, i in enumerate(order):
        bias = median_term(pad[pos : pos + 2 * wing + 1])
        ctx.claim(approx(got[i].log2, logs[i] - bias), "each bin's log2 is reduced by the rolling median of log2 over the bins ordered by the covariate")
    ctx.cover("reached")


class _K:
    """Sort key whose comparisons are decided by the solver."""

    def __init__(self, v):
        self.v = v

    def __lt__(self, o):
        return bool(self.v < o.v)


def h_edge(ctx):
    """edge_losses / edge_gains against the docstring formulas."""
    i = params.INSERT_SIZE
    t = ctx.int("t", 1, 2000)
    g = ctx.int("g", -100, i)
    losses = fix.edge_losses(obj_col([t, t]), i)
    want_loss = If(t < i, i / (2 * t) - ((i - t) * (i - t)) / (2 * i * t), i / (2 * t)) if not concrete(ctx) else (i / (2 * t) - ((i - t) ** 2) / (2 * i * t) if t < i else i / (2 * t))
    ctx.claim(approx(losses[0], want_loss), "edge loss is i/2t, reduced by (i-t)^2/2it when the bait is shorter than the insert")
    try:
        gains = fix.edge_gains(obj_col([t, t]), obj_col([g, g]), i)
    except Exception as exc:
        claim_raised(ctx, "edge_gains", exc)
        return
    g0 = Max2(g, 0)
    base = ((i - g0) * (i - g0)) / (4 * i * t)
    past = ((i - t - g0) * (i - t - g0)) / (4 * i * t)
    ctx.claim(approx(gains[0], If(t + g0 < i, base - past, base)), "edge gain is (i-g)^2/4it, reduced by (i-t-g)^2/4it when the neighbour's flank extends past the bait; overlaps count as gap 0")
    ctx.cover("short bait", t < i)
    ctx.cover("overlapping neighbour", g < 0)


HARNESSES = [
    Harness(
        "match_filter",
        h_match,
        [{"layout": l, "with_gc": gcf, "sym_bin": sb} for l in ("all", "subset", "permuted") for gcf in (True, False) for sb in ((0, 1, 2, 3) if l != "subset" else (0, 2))]
        + [{"layout": l, "with_gc": gcf} for l in ("absent", "dup") for gcf in (True, False)]
        + [{"layout": "t_unsorted_ref", "with_gc": True, "sym_bin": sb} for sb in (0, 2)]
        + [{"layout": "t_all", "with_gc": False, "sym_bin": 3}, {"layout": "t_foreign", "with_gc": True}],
        covers=["refused", "dropped a bad bin", "kept all"],
        wall_s=300,
        thorough_wall_s=1500,
    ),
    Harness(
        "arithmetic",
        h_arith,
        [{"n_anti": 0}, {"n_anti": 0, "with_x": True}, {"n_anti": 1, "with_x": True, "tier": "thorough"}, {"n_anti": 1}, {"n_anti": 1, "flat": True}, {"n_anti": 0, "shift": True}, {"n_anti": 0, "bad_bin": True}, {"n_anti": 1, "bad_bin": True, "tier": "thorough"}, {"n_anti": 1, "shift": True, "tier": "thorough"}, {"n_anti": 1, "flat": True, "shift": True, "tier": "thorough"}]
        + split_cases({"n_anti": 2, "tier": "thorough"}, ("sl0<=sl1", "sl0>sl1"), ("sl3<=sl4", "sl3>sl4"), ("rs0<=rs1", "rs0>rs1"), ("rs3<=rs4", "rs3>rs4")),
        covers=["reached", "rescaled"],
        wall_s=400,
        thorough_wall_s=1800,
    ),
    Harness(
        "row_permutation",
        h_perm,
        [{"n_anti": na, "flags": fl, "perm": pm} for na, fl, pm in (
            (0, (False, False, False), "rev"), (0, (True, False, False), "rot"), (0, (False, True, False), "swap01"),
            (2, (False, False, True), "rev"), (1, (True, False, False), "rev"))]
        + [{"n_anti": 0, "flags": (True, False, False), "perm": "rev", "ties": True}]
        + [{"n_anti": 2, "flags": (True, True, True), "perm": "rot", "tier": "thorough"}]
        + [{"n_anti": na, "flags": fl, "perm": pm, "ties": tt, "tier": "thorough"} for na in (0, 2) for fl in ((True, True, True), (False, True, False), (True, False, True)) for pm in ("rev", "rot", "swap01") for tt in (False, True)],
        covers=["reached"],
        wall_s=400,
        thorough_wall_s=1500,
    ),
    Harness(
        "center_by_window",
        h_window,
        split_cases({"fraction": 0.5}, ("k0<k1", "k0>k1"), ("k2<k3", "k2>k3"), ("k0<k2", "k0>k2")) + split_cases({"fraction": 0.99, "tier": "thorough"}, ("k0<k1", "k0>k1"), ("k2<k3", "k2>k3")),
        covers=["reached"],
        wall_s=300,
    ),
    Harness("edge_formulas", h_edge, [{}], covers=["short bait", "overlapping neighbour"], wall_s=120),
]
