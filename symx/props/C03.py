"""C03 -- segments tile each chromosome and account for every surviving bin."""
import numpy as np
import pandas as pd

from symx.api import *
from symx.props.common import *

from cnvlib import segmentation, params, smoothing
from cnvlib.segmentation import haar, hmm
from cnvlib.cnary import CopyNumArray as CNA

PROPERTY = "C03"
FUNCTIONS = [
    "cnvlib.segmentation.do_segmentation/_do_segmentation/_ds/transfer_fields/drop_outliers",
    "cnvlib.segmentation.none.segment_none, cnvlib.segmetrics.segment_mean",
    "cnvlib.segmentation.haar.segment_haar/one_chrom (haarSeg's breakpoints are an arbitrary solver-chosen set); in one configuration the real haarSeg/HaarConv/FindLocalPeaks/UnifyLevels/SegmentByPeaks run on the symbolic signal with concrete weights and an arbitrary FDR threshold",
    "cnvlib.segmentation.hmm.segment_hmm/as_observation_matrix + cnvlib.segfilters.squash_by_groups(by_arm=True)/squash_region (the model's state sequence is arbitrary, solver-chosen)",
    "cnvlib.cnary.CopyNumArray.drop_low_coverage, skgenome.gary.GenomicArray.by_arm/by_chromosome/concat/sort, skgenome.intersect.iter_slices",
]
BOUNDS = {
    "bins": "quick: 3 bins on one chromosome or 2 + 2 on two (chr1, chrX); thorough: 4 / 3 + 2 (the 3 + 2 tables with concrete weights 0.5, 1, 0.25, 0.75, 0.625); coordinates symbolic, sorted, disjoint",
    "values": "log2 symbolic in [-30, 10] (null-coverage reachable), weight symbolic in [0, 1] (0 reachable), depth symbolic >= 0; gene names concrete incl. duplicates, Antitarget and ignored names (two namings: A,B,A,Antitarget,-,C with filters on; A,-,B,.,CGH,Background with no filter)",
    "methods": "none, haar, hmm, hmm-tumor, hmm-germline; skip_low on/off; min_weight 0 / 0.3; outlier filter off (it needs > 50 bins) or an arbitrary solver-chosen outlier mask",
    "arms": "one arm per chromosome (an arm split needs > 101 bins)",
}
NOT_COVERED = [
    "cbs and flasso (R scripts)",
    "processes > 1 (process pool; the serial pool is used)",
    "the numerics of HaarSeg's peak statistics, the Savitzky-Golay smoother and pomegranate's HMM: their outputs are arbitrary (every breakpoint set / state sequence is explored)",
    "arm splitting at a centromere-sized gap (needs more than 101 bins per chromosome)",
]
STUBS = [
    "haar.haarSeg -> arbitrary sorted breakpoint set (solver-chosen) with the segment table layout of the real function",
    "hmm.hmm_get_model -> object whose predict() returns an arbitrary state sequence in {0,1,2} (solver-chosen)",
    "CopyNumArray.smooth_log2 -> returns the log2 column unchanged (its result only feeds the stubbed peak statistics / model)",
    "smoothing.rolling_outlier_quantile -> arbitrary solver-chosen mask (one configuration)",
]
ASSUMPTIONS = ["bins are sorted and non-overlapping within a chromosome"]

M = 10**6
LOW = params.NULL_LOG2_COVERAGE - params.MIN_REF_COVERAGE
MEANINGLESS = ("-", ".", "CGH", "Antitarget", "Background")
GENES = ["A", "B", "A", "Antitarget", "-", "C"]
# second naming: the placeholder names among the first bins (used by the configurations without filters)
GENES_B = ["A", "-", "B", ".", "CGH", "Background"]


def sym_bins(ctx, chroms, genes=GENES):
    n = len(chroms)
    cols = {"chromosome": chroms, "start": [], "end": [], "gene": list(genes[:n]), "log2": [], "depth": [], "weight": []}
    prev = {}
    for i, c in enumerate(chroms):
        s = ctx.int(f"s{i}", 0, M)
        e = ctx.int(f"e{i}", 0, M)
        ctx.assume(s < e)
        if c in prev:
            ctx.assume(prev[c] <= s)
        prev[c] = e
        cols["start"].append(s)
        cols["end"].append(e)
        cols["log2"].append(ctx.real(f"l{i}", -30, 10))
        cols["depth"].append(ctx.real(f"d{i}", 0, 1000))
        cols["weight"].append(ctx.real(f"w{i}", 0, 1))
    return cols


def h_segment(ctx, chroms, method, skip_low, min_weight, outliers=False, case=None, real_haar=False, weights=None):
    cols = sym_bins(ctx, chroms, GENES_B if (not skip_low and not min_weight and not outliers) else GENES)
    if weights is not None:
        # the weighted Haar wavelet is a quotient of weighted sums: with symbolic weights its
        # comparisons go `unknown`, so the real-HaarSeg variant runs with concrete weights
        cols["weight"] = list(weights)
    apply_case(ctx, case)
    n = len(chroms)
    cna = make_cna(cols, {"sample_id": "S"})
    saved = {}

    def patch(obj, name, val):
        saved[(obj, name)] = getattr(obj, name)
        setattr(obj, name, val)

    nb_counter = [0]

    def fake_haarSeg(I, breaksFdrQ, W=None, **kw):
        I = list(I)
        k = len(I)
        nb_counter[0] += 1
        bps = [j for j in range(1, k) if ctx.choice(f"bp{nb_counter[0]}_{j}", [0, 1])]
        st = np.array([0] + bps)
        ed = np.array(bps + [k])
        means = []
        for a, b in zip(st, ed):
            vals = I[a:b]
            means.append(Sum(vals) / len(vals))
        return {"start": st, "end": ed - 1, "size": ed - st, "mean": obj_col(means) if any(isinstance(v, Sym) for v in means) else np.array(means, dtype=float)}

    class FakeModel:
        states = ["loss", "neutral", "gain"]
        edges = []

        def predict(self, obs, algorithm="map"):
            nb_counter[0] += 1
            return [ctx.choice(f"st{nb_counter[0]}_{j}", [0, 1, 2]) for j in range(len(obs))]

    def fake_FDRThres(x, q, stdev):
        # scipy's normal cdf is out of reach: the threshold is an arbitrary non-negative number
        nb_counter[0] += 1
        return ctx.real(f"T{nb_counter[0]}", 0, 20)

    if real_haar:
        # the real HaarConv / FindLocalPeaks / UnifyLevels / SegmentByPeaks run on the symbolic signal
        patch(haar, "FDRThres", fake_FDRThres)
    else:
        patch(haar, "haarSeg", fake_haarSeg)
    patch(hmm, "hmm_get_model", lambda *a, **k: FakeModel())
    patch(CNA, "smooth_log2", lambda self, *a, **k: self["log2"].values)
    out_mask = [False] * n
    if outliers:

        def fake_outliers(x, width, q, m):
            nb_counter[0] += 1
            return np.array([bool(ctx.choice(f"out{nb_counter[0]}_{j}", [0, 1])) for j in range(len(x))])

        patch(smoothing, "rolling_outlier_quantile", fake_outliers)
    try:
        segs = segmentation.do_segmentation(cna, method, skip_low=skip_low, skip_outliers=(10 if outliers else 0), min_weight=min_weight)
    except Exception as exc:
        claim_raised(ctx, f"do_segmentation({method})", exc)
        return
    finally:
        for (obj, name), val in saved.items():
            setattr(obj, name, val)
    rows = list(segs.data.itertuples(index=False))
    if not real_haar:
        # (the weighted Haar convolution keeps running sums: where they cancel exactly in real
        # arithmetic float64 leaves 1e-17, which FindLocalPeaks may or may not see as a peak, so
        # the breakpoint set itself is not compared between the symbolic and the float run -- A1;
        # the claims are replayed on whatever segmentation the float run produces)
        ctx.observe("segments", [[r.chromosome, r.start, r.end, r.probes] for r in rows])
    # survivors, from the statement (filters in the documented order)
    surv = []
    choice_vals = dict(ctx.inputs) if concrete(ctx) else None
    for i in range(n):
        dead = False
        if skip_low and bool(Or(cols["log2"][i] < LOW, cols["depth"][i] == 0)):
            dead = True
        surv.append(not dead)
    if outliers:
        # the stub's mask applies to the bins that survived skip_low, per chromosome in order
        k = 0
        order = [i for i in range(n) if surv[i]]
        # reconstruct which choice variable belongs to which bin: masks were drawn per chromosome
        call = 0
        for c in sorted(set(chroms), key=chroms.index):
            idx = [i for i in order if chroms[i] == c]
            if not idx:
                continue
            call += 1
            names = [nm for nm in ctx.inputs if nm.startswith("out")]
            # choice names are out<callno>_<j>; callno counts all stub calls, so match by order of appearance
        drawn = [nm for nm in ctx.inputs if nm.startswith("out")]
        groups = {}
        for nm in drawn:
            groups.setdefault(nm.split("_")[0], []).append(nm)
        gl = list(groups.values())
        ci = 0
        for c in sorted(set(chroms), key=chroms.index):
            idx = [i for i in order if chroms[i] == c]
            if not idx:
                continue
            names = gl[ci]
            ci += 1
            for i, nm in zip(idx, names):
                v = ctx.inputs[nm]
                if bool(v == 1):
                    surv[i] = False
    for i in range(n):
        if surv[i]:
            w = cols["weight"][i]
            if bool(w < min_weight if min_weight else w == 0):
                surv[i] = False
    ctx.cover("a bin was filtered", not all(surv))
    per_arm = method in ("none", "haar")
    for c in sorted(set(chroms), key=chroms.index):
        idx = [i for i in range(n) if chroms[i] == c]
        sidx = [i for i in idx if surv[i]]
        g = [r for r in rows if r.chromosome == c]
        if not sidx:
            if per_arm:
                ctx.claim(not g, "a chromosome without surviving bins has no segment")
            continue
        ctx.claim(len(g) >= 1, "every chromosome with a surviving bin has a segment")
        if not g:
            continue
        first_s, last_e = cols["start"][idx[0]], cols["end"][idx[-1]]
        for r in g:
            ctx.claim(r.start < r.end, "segments have positive length")
            ctx.claim(And(r.start >= first_s, r.end <= last_e), "segments stay within the span of the chromosome's input bins")
        for a, b in zip(g[:-1], g[1:]):
            ctx.claim(a.end <= b.start, "segments are sorted and do not overlap")
        for i in sidx:
            inside = [And(r.start <= cols["start"][i], cols["end"][i] <= r.end) for r in g]
            ctx.claim(Count(inside) == 1, "every surviving bin lies in exactly one segment")
        for r in g:
            ctx.claim(r.probes == Count([And(r.start <= cols["start"][i], cols["end"][i] <= r.end) for i in sidx]), "probes equals the number of surviving bins inside the segment")
        if per_arm:
            ctx.claim(And(g[0].start == first_s, g[-1].end == last_e), "the first segment starts at the arm's first input bin and the last ends at its last input bin")
            ctx.cover("edge bin filtered", (not surv[idx[0]]) or (not surv[idx[-1]]))
        # fields aggregated over all input bins spanned
        for r in g:
            span = [And(cols["start"][i] < r.end, cols["end"][i] > r.start) for i in idx]
            W = Sum([If(sp, cols["weight"][i], 0) for sp, i in zip(span, idx)])
            ctx.claim(approx(r.weight, W), "segment weight is the sum of the weights of all input bins it spans")
            D = Sum([If(sp, cols["weight"][i] * cols["depth"][i], 0) for sp, i in zip(span, idx)])
            if concrete(ctx):
                ctx.claim(approx(r.depth, D / W if W > 0 else 0), "segment depth is the weight-averaged depth of the bins it spans")
            else:
                ctx.claim(If(W > 0, r.depth * W == D, r.depth == 0), "segment depth is the weight-averaged depth of the bins it spans")
            inspan = [i for sp, i in zip(span, idx) if bool(sp)]
            names = []
            for i in inspan:
                nm = cols["gene"][i]
                if nm not in MEANINGLESS and nm not in names:
                    names.append(nm)
            ctx.claim(r.gene == (",".join(names) if names else "-"), "gene lists the distinct meaningful names of the spanned bins in order")
            if method == "none" or method.startswith("hmm"):
                ins = [i for i in sidx if bool(And(r.start <= cols["start"][i], cols["end"][i] <= r.end))]
                if ins:
                    Ws = Sum([cols["weight"][i] for i in ins])
                    Ls = Sum([cols["weight"][i] * cols["log2"][i] for i in ins])
                    if concrete(ctx):
                        want = Ls / Ws if Ws > 0 else sum(cols["log2"][i] for i in ins) / len(ins)
                        ctx.claim(approx(r.log2, want), "log2 is the weight-averaged log2 of the surviving bins")
                    else:
                        ctx.claim(If(Ws > 0, r.log2 * Ws == Ls, r.log2 * len(ins) == Sum([cols["log2"][i] for i in ins])), "log2 is the weight-averaged log2 of the surviving bins")
    tot = 0
    for r in rows:
        tot = tot + r.probes
    ctx.claim(tot == len([i for i in range(n) if surv[i]]), "probes sum to the number of surviving bins")
    ctx.cover("two segments on a chromosome", any(a.chromosome == b.chromosome for a, b in zip(rows[:-1], rows[1:])))


def _cfgs():
    out = []
    for method in ("none", "haar", "hmm", "hmm-tumor", "hmm-germline"):
        for lay, tier in ((["chr1"] * 3, "quick"), (["chr1", "chr1", "chrX", "chrX"], "quick"), (["chr1"] * 4, "thorough"), (["chr1"] * 3 + ["chrX"] * 2, "thorough")):
            for skip_low, mw in ((False, 0), (True, 0), (True, 0.3)):
                c = {"chroms": lay, "method": method, "skip_low": skip_low, "min_weight": mw}
                if len(lay) == 5:
                    # five bins with symbolic weights AND depths: the quotient-of-sums claims went
                    # `unknown` / past their budget in the first thorough run; concrete weights here
                    # (one below min_weight 0.3, none zero: symbolic weights stay with the smaller tables)
                    c["weights"] = [0.5, 1.0, 0.25, 0.75, 0.625]
                t = tier
                if method in ("hmm-tumor", "hmm-germline") and (mw or len(lay) > 3 or skip_low):
                    t = "thorough"
                if method == "hmm" and len(lay) == 4 and not mw:
                    t = "thorough"
                if method == "haar" and len(lay) == 4 and mw:
                    t = "thorough"
                if t == "thorough":
                    c["tier"] = "thorough"
                if len(lay) >= 4 and skip_low:
                    # spread the filter combinations of the edge bins over the cores
                    splits = [("l0<-15", "l0>=-15"), (f"l{len(lay) - 1}<-15", f"l{len(lay) - 1}>=-15")]
                    if method != "none":
                        splits.append(("l1<-15", "l1>=-15"))
                    if mw and len(lay) != 5:
                        splits.append(("w0<0.3", "w0>=0.3"))
                    out.extend(split_cases(c, *splits))
                else:
                    out.append(c)
    out.append({"chroms": ["chr1"] * 3, "method": "none", "skip_low": False, "min_weight": 0, "outliers": True})
    out.append({"chroms": ["chr1"] * 3, "method": "haar", "skip_low": False, "min_weight": 0, "real_haar": True, "weights": [0.5, 1.0, 0.25]})
    out.append({"chroms": ["chr1"] * 4, "method": "haar", "skip_low": False, "min_weight": 0, "real_haar": True, "weights": [0.5, 1.0, 0.25, 0.75], "tier": "thorough"})
    out.append({"chroms": ["chr1", "chr1", "chrX", "chrX"], "method": "haar", "skip_low": True, "min_weight": 0, "outliers": True, "tier": "thorough"})
    return out


HARNESSES = [
    Harness("segment", h_segment, _cfgs(), covers=["a bin was filtered", "edge bin filtered", "two segments on a chromosome"], wall_s=400, thorough_wall_s=1800),
]
