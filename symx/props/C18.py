"""C18 -- VCF genotypes become allele frequencies and per-segment BAF as defined."""
import numpy as np
import pandas as pd

from symx.api import *
from symx.props.common import *
from symx.props.C19 import median_term

from skgenome import tabio
from skgenome.tabio import vcfio
from cnvlib import cmdutil, call
from cnvlib.vary import VariantArray as VA, _tumor_boost, _mirrored_baf

PROPERTY = "C18"
FUNCTIONS = [
    "skgenome.tabio.vcfio.read_vcf/_choose_samples/_parse_pedigrees/_confirm_unique/_parse_records/_extract_genotype/_get_alt_count/_safesum/_get_end",
    "skgenome.tabio.read(fmt='vcf'), cnvlib.cmdutil.load_het_snps",
    "cnvlib.vary.VariantArray.baf_by_ranges/heterozygous/mirrored_baf/tumor_boost/zygosity_from_freq, _mirrored_baf, _tumor_boost; cnvlib.call.rescale_baf; skgenome.intersect.into_ranges",
]
BOUNDS = {
    "records": "2 biallelic records (3 thorough) in either file order; start, DP, AD counts, min_depth symbolic; genotype, missing keys (DP / AD; also missing in one record only), SOMATIC flag, SNV / insertion / symbolic allele with END solver-chosen",
    "samples": "1 sample, or tumour + normal with and without a PEDIGREE header, every selector in {None, names, indices}",
    "call": "do_call with variants on 2 adjacent segments that a ci / sem filter merges (3 heterozygous variants with symbolic frequencies)",
    "BAF": "3 variants with symbolic frequencies in [0,1] and solver-chosen zygosities inside / outside 2 ranges; TumorBoost and purity formulas with symbolic frequencies (n_freq in (0,1))",
}
NOT_COVERED = ["htslib's parsing of VCF text (pysam): records are stub objects with the attributes the reader uses", "multi-allelic records (outside the statement)", "MuTect/GATK command-line headers"]
STUBS = ["pysam.VariantFile -> header/records stub (start = POS - 1, samples mapping with GT/AD/DP, info mapping, filter)"]
ASSUMPTIONS = []

M = 10**6


class _Hdr:
    def __init__(self, samples, pedigree):
        self.samples = samples
        self.records = []
        if pedigree:

            class R:
                key = "PEDIGREE"

                def items(self_inner):
                    return [("Derived", pedigree[0]), ("Original", pedigree[1])]

            self.records = [R()]


class _Rec:
    def __init__(self, chrom, start, ref, alts, info, samples, flt=()):
        self.chrom, self.start, self.pos, self.ref, self.alts, self.info, self.samples, self.filter = chrom, start, start + 1, ref, alts, info, samples, list(flt)


class _VF:
    def __init__(self, header, records):
        self.header, self._records, self.subset = header, records, None

    def subset_samples(self, names):
        self.subset = list(names)

    def __iter__(self):
        return iter(self._records)


def make_record(ctx, k, chrom, sample_names, som_choices=(False, True), fields="DP+AD", rich=True, plain_numbers=False, info_dp=False):
    """rich: allele kind, SOMATIC flag and genotypes are solver-chosen; otherwise the record is a plain
    heterozygous SNV (its numbers stay symbolic) -- one rich record per table keeps the case split small."""
    start = ctx.int(f"pos{k}", 0, M) if not (plain_numbers and not rich) else 500 + 10 * k
    kind = ctx.choice(f"kind{k}", ["snv", "ins", "sv"]) if rich else "snv"
    info = {}
    if kind == "snv":
        ref, alts = "A", ("G",)
        end = start + 1
    elif kind == "ins":
        ref, alts = "A", ("ACG",)
        end = start + 3
    else:
        ref, alts = "N", ("<DEL>",)
        end = ctx.int(f"end{k}", 0, 2 * M)
        ctx.assume(end > start)
        info["END"] = end
    som = ctx.choice(f"som{k}", list(som_choices)) if rich else False
    if som:
        info["SOMATIC"] = True
    idp = None
    if info_dp:
        # INFO/DP is the depth over all samples: the last resort, after the sample's own DP and AD
        idp = ctx.int(f"idp{k}", 0, 3000)
        info["DP"] = idp
    samples = {}
    exp = {}
    for nm in sample_names:
        gt = ctx.choice(f"gt{k}{nm}", [(0, 0), (0, 1), (1, 1)]) if rich else (0, 1)
        if plain_numbers and not rich:
            ad_ref, ad_alt, dp = 40, 60, 100
        else:
            ad_ref = ctx.int(f"adr{k}{nm}", 0, 500)
            ad_alt = ctx.int(f"ada{k}{nm}", 0, 500)
            dp = ctx.int(f"dp{k}{nm}", 0, 1000)
        d = {"GT": gt}
        if "DP" in fields:
            d["DP"] = dp
        if "AD" in fields:
            d["AD"] = (ad_ref, ad_alt)
        samples[nm] = d
        depth = dp if "DP" in fields else ((ad_ref + ad_alt) if "AD" in fields else idp)
        if depth is None:
            depth = 0  # nothing states a depth: reported as 0, and 0 meets no positive minimum depth
        # _safesum drops zero counts, which does not change the sum
        alt = ad_alt if "AD" in fields else None
        zyg = 0.5 if len(set(gt)) > 1 else (0.0 if gt[0] == 0 else 1.0)
        exp[nm] = (depth, alt, zyg)
    return _Rec(chrom, start, ref, alts, info, samples), (start, end, som, exp, alts[0], ref)


def h_rows(ctx, sample_names, pedigree, sel, normal_sel, order, skip_somatic, n=2, fields="DP+AD", plain=False, info_dp=False):
    chroms = ["chr1", "chr1", "chr2"][:n]
    recs, exps = [], []
    for k in range(n):
        # `fields` may differ per record (a list): DP/AD partly missing within one file
        fk = fields[k] if isinstance(fields, (list, tuple)) else fields
        r, e = make_record(ctx, k, chroms[k], sample_names, fields=fk, rich=(k == 0), plain_numbers=plain, info_dp=info_dp)
        recs.append(r)
        exps.append(e)
    for i in range(n):
        for j in range(i + 1, n):
            if chroms[i] == chroms[j]:
                ctx.assume(exps[i][0] != exps[j][0])
    min_depth = ctx.int("min_depth", 0, 300)
    vf = _VF(_Hdr(list(sample_names), pedigree), [recs[i] for i in order])

    class _Pysam:
        VariantFile = staticmethod(lambda infile: vf)

    orig = vcfio.pysam
    vcfio.pysam = _Pysam
    raised = None
    try:
        varr = tabio.read("x.vcf", "vcf", sample_id=sel, normal_id=normal_sel, min_depth=min_depth, skip_somatic=skip_somatic)
    except IndexError as exc:
        raised = exc
    except Exception as exc:
        claim_raised(ctx, "read(vcf)", exc)
        return
    finally:
        vcfio.pysam = orig
    # the documented selection rules
    names = list(sample_names)

    def resolve(x):
        return names[x] if isinstance(x, int) else x

    s_id, n_id = resolve(sel), resolve(normal_sel)
    if pedigree:
        pairs = [pedigree]
    elif n_id:
        pairs = [(o, n_id) for o in names if o != n_id]
    else:
        pairs = [(o, None) for o in names]
    if s_id:
        pairs = [(a, b) for a, b in pairs if a == s_id]
    if not pairs:
        pairs = [(s_id, None)]
    want_s, want_n = pairs[0]
    if raised is not None:
        ctx.claim(False, "sample selection raised IndexError for a valid selector")
        return
    ctx.claim(vf.subset == [x for x in (want_s, want_n) if x], "the sample (and paired normal) are chosen by the documented rules (PEDIGREE first, else the given ids, else the first sample)")
    rows = {}
    for r in varr.data.itertuples(index=False):
        rows[(r.chromosome, r.start if not isinstance(r.start, Sym) else id(r))] = r
    got = list(varr.data.itertuples(index=False))
    ctx.observe("n", len(got))
    used = [False] * len(got)
    for k in range(n):
        start, end, som, exp, alt, ref = exps[k]
        depth, altc, zyg = exp[want_s]
        if want_n:
            ndepth = exp[want_n][0]
        keep = True
        # depth filter (on the normal's depth when there is one), only if any depth is non-zero
        any_depth = Or(*[e[3][want_s][0] != 0 for e in exps])
        dkey = ndepth if want_n else depth
        if bool(And(min_depth != 0, any_depth)) and not bool(dkey >= min_depth):
            keep = False
        if skip_somatic and som:
            keep = False
        hit = None
        for j, r in enumerate(got):
            if not used[j] and r.chromosome == chroms[k] and bool(r.start == start):
                hit = j
                break
        ctx.claim((hit is not None) == keep, "a record is kept exactly when it passes the depth and somatic filters asked for")
        if hit is None or not keep:
            continue
        used[hit] = True
        r = got[hit]
        ctx.claim(And(r.start == start, r.end == end), "0-based start; end = start + len(alt) or INFO END")
        ctx.claim(r.ref == ref and r.alt == alt, "alleles stay attached to their own coordinates")
        ctx.claim(r.depth == depth, "depth is the sample's DP, else the sum of its AD, else INFO/DP")
        ctx.claim(r.zygosity == zyg, "zygosity 0 / 0.5 / 1 from the genotype")
        ctx.claim(bool(r.somatic) == bool(som), "the SOMATIC flag")
        if altc is not None:
            ctx.claim(r.alt_count == altc, "alt-allele count is AD[1]")
            if bool(depth > 0):
                ctx.claim(approx(r.alt_freq * depth, altc), "alt_freq = count / depth")
        else:
            ctx.claim(is_nan(r.alt_count) or r.alt_count == 0, "no AD: alt count missing")
        ctx.claim(not is_nan(r.alt_freq), "a frequency that cannot be computed (no depth, no counts) is 0, not missing")
        if want_n:
            nd, na, nz = exp[want_n]
            ctx.claim(And(r.n_depth == nd, r.n_zygosity == nz), "the paired normal's depth and zygosity")
            ctx.claim(not is_nan(r.n_alt_freq), "the paired normal's frequency is 0, not missing, where it cannot be computed (no depth)")
            if na is not None and bool(nd > 0):
                ctx.claim(approx(r.n_alt_freq * nd, na), "the paired normal's alt_freq = count / depth")
            ctx.cover("normal without depth", nd == 0)
        ctx.cover("record kept")
    ctx.claim(all(used), "no other rows")
    srt = [(r.chromosome, r.start) for r in got]
    for a, b in zip(got[:-1], got[1:]):
        if a.chromosome == b.chromosome:
            ctx.claim(a.start <= b.start, "rows are sorted")
    ctx.cover("record dropped", len(got) < n)


def h_het(ctx, tumor_boost, zygosity_freq=None):
    """load_het_snps keeps exactly the germline-heterozygous records."""
    names = ["T", "N"]
    recs, exps = [], []
    for k in range(2):
        r, e = make_record(ctx, k, "chr1", names, som_choices=(False,), rich=(k == 0), fields=("AD" if zygosity_freq is not None else "DP+AD"), plain_numbers=zygosity_freq is not None)
        recs.append(r)
        exps.append(e)
    ctx.assume(exps[0][0] != exps[1][0])
    vf = _VF(_Hdr(names, ("T", "N")), recs)

    class _Pysam:
        VariantFile = staticmethod(lambda infile: vf)

    orig = vcfio.pysam
    vcfio.pysam = _Pysam
    try:
        varr = cmdutil.load_het_snps("x.vcf", None, None, 0, zygosity_freq, False)
    except Exception as exc:
        claim_raised(ctx, "load_het_snps", exc)
        return
    finally:
        vcfio.pysam = orig
    got = list(varr.data.itertuples(index=False))
    nz = [e[3]["N"][2] for e in exps]
    tz = [e[3]["T"][2] for e in exps]
    if zygosity_freq is not None:
        # genotypes are re-derived from the allele frequencies: het where zygosity_freq <= f < 1 - zygosity_freq
        def zy(depth, alt):
            if alt is None or not bool(depth > 0):
                return None
            if bool(alt >= (1 - zygosity_freq) * depth):
                return 1.0
            if bool(alt < zygosity_freq * depth):
                return 0.0
            return 0.5

        tzf = [zy(e[3]["T"][0], e[3]["T"][1]) for e in exps]
        nzf = [zy(e[3]["N"][0], e[3]["N"][1]) for e in exps]
        if any(z is None for z in tzf + nzf):
            return  # depth 0 / no AD: frequency undefined, not claimed
        tz, nz = tzf, nzf
        ctx.cover("genotypes from frequencies")
    elif all(z == 0.0 for z in nz):
        return  # Mutect2 work-around path (genotypes re-inferred from frequencies): not claimed here
    # drop somatic-by-genotype (tumour non-ref, normal hom-ref), then keep normal-heterozygous ones if any
    left = [k for k in range(2) if not (tz[k] != 0.0 and nz[k] == 0.0)]
    het = [k for k in left if nz[k] == 0.5]
    want = het if het else left
    ctx.claim(len(got) == len(want), "load_het_snps keeps exactly the germline-heterozygous records (all records if there is none)")
    for k in want:
        ctx.claim(any(bool(r.start == exps[k][0]) for r in got), "kept records are the heterozygous ones")
    ctx.cover("dropped a homozygous record", len(want) < 2)


def h_baf(ctx, above_half, tumor_boost=False, one_chrom=False):
    """baf_by_ranges: median of the mirrored heterozygous frequencies inside each range
    (TumorBoost-normalised first when asked; the normal's frequencies are concrete so that
    the quotients stay linear)."""
    n = 3
    pos = [10, 20, 110]
    freqs = [ctx.real(f"f{i}", 0, 1) for i in range(n)]
    zyg = [ctx.choice(f"z{i}", [0.0, 0.5, 1.0]) for i in range(n)]
    vchroms = ["chr1"] * n
    if one_chrom:
        # segments on one chromosome only, variants on that one and on another at coordinates that
        # fall inside the segments: frequencies stay attached to their own chromosome
        vchroms = ["chr1", "chr2", "chr1"]
    cols = {"chromosome": vchroms, "start": pos, "end": [p + 1 for p in pos], "ref": ["A"] * n, "alt": ["G"] * n, "zygosity": zyg, "alt_freq": freqs}
    nfreq = [0.5, 0.4, 0.25]
    if tumor_boost:
        cols["n_zygosity"] = list(zyg)
        cols["n_alt_freq"] = list(nfreq)
    va = VA(make_df(cols))
    segs = make_ga({"chromosome": ["chr1", "chr1", "chr2"], "start": [0, 100, 0], "end": [100, 200, 50]})
    groups = ([0, 1], [2], [])
    if one_chrom:
        segs = make_ga({"chromosome": ["chr1", "chr1", "chr1"], "start": [0, 100, 300], "end": [100, 200, 350]})
        groups = ([0], [2], [])
    if tumor_boost:
        # the formula, per variant (stays attached to its own coordinates)
        freqs = [If(f < nf, 0.5 * f / nf, 1 - 0.5 * (1 - f) / (1 - nf)) for f, nf in zip(freqs, nfreq)]
    try:
        baf = list(va.baf_by_ranges(segs, above_half=above_half, tumor_boost=tumor_boost))
    except Exception as exc:
        claim_raised(ctx, "baf_by_ranges", exc)
        return
    ctx.observe("baf", baf)
    ctx.claim(len(baf) == 3, "one BAF per range")
    het = [i for i in range(n) if zyg[i] == 0.5]
    use = het if het else list(range(n))
    for k, members in enumerate(groups):
        mem = [i for i in members if i in use]
        if not mem:
            ctx.claim(is_nan(baf[k]), "BAF is missing where a range holds no heterozygous variant")
            ctx.cover("empty range")
            continue
        vals = [freqs[i] for i in mem]
        up = above_half if above_half is not None else bool(median_term(vals) > 0.5)
        mir = [0.5 + Abs(v - 0.5) if up else 0.5 - Abs(v - 0.5) for v in vals]
        ctx.claim(approx(baf[k], median_term(mir)), "BAF is the median of the heterozygous frequencies inside the range, mirrored to one side of 0.5")
        ctx.cover("two variants in a range", len(mem) == 2)


def h_call_baf(ctx, filt):
    """do_call with variants and a merging filter: the BAF reported for an output segment is the
    median of the heterozygous frequencies inside THAT segment (after merging), mirrored."""
    pos = [10, 50, 150]
    freqs = [ctx.real(f"f{i}", 0, 1) for i in range(3)]
    va = VA(make_df({"chromosome": ["chr1"] * 3, "start": pos, "end": [p + 1 for p in pos], "ref": ["A"] * 3, "alt": ["G"] * 3, "zygosity": [0.5] * 3, "alt_freq": freqs}))
    cols = {"chromosome": ["chr1", "chr1"], "start": [0, 100], "end": [100, 200], "gene": ["-", "-"], "log2": [0.5, 0.75], "probes": [4, 6], "weight": [2.0, 3.0]}
    if filt == "ci":
        cols["ci_lo"], cols["ci_hi"] = [0.25, 0.5], [0.75, 1.0]
    elif filt == "sem":
        cols["sem"] = [0.0625, 0.125]
    segs = make_cna(cols)
    try:
        out = call.do_call(segs, va, "none", 2, None, False, True, None, [filt] if filt else None)
    except Exception as exc:
        claim_raised(ctx, "do_call", exc)
        return
    got = list(out.data.itertuples(index=False))
    ctx.observe("n", len(got))
    groups = [[0, 1, 2]] if filt else [[0, 1], [2]]
    ctx.claim(len(got) == len(groups), "segments on the same side of zero are merged by ci / sem (none without a filter)")
    if len(got) != len(groups):
        return
    for r, mem in zip(got, groups):
        vals = [freqs[i] for i in mem]
        up = bool(median_term(vals) > 0.5)
        mir = [0.5 + Abs(v - 0.5) if up else 0.5 - Abs(v - 0.5) for v in vals]
        ctx.claim(approx(r.baf, median_term(mir)), "the BAF of an output segment is the median of the heterozygous frequencies inside it, mirrored to one side of 0.5")
    ctx.cover("reached")


def h_formulas(ctx):
    t = ctx.real("t", 0, 1)
    nf = ctx.real("n", 0, 0.999)  # 0 included: a tie t = n = 0 takes the second branch (0.5), n = 1 divides by zero there
    out = list(_tumor_boost(obj_col([t]), obj_col([nf])))
    ctx.cover("tie at zero", And(t == 0, nf == 0))
    if concrete(ctx):
        want = 0.5 * t / nf if t < nf else 1 - 0.5 * (1 - t) / (1 - nf)
        ctx.claim(approx(out[0], want), "TumorBoost follows its formula")
    else:
        ctx.claim(If(t < nf, out[0] * nf == 0.5 * t, (1 - out[0]) * (1 - nf) == 0.5 * (1 - t)), "TumorBoost follows its formula")
    p = ctx.real("p", 0.01, 1)
    b = ctx.real("b", 0, 1)
    got = call.rescale_baf(p, b)
    ctx.claim(approx(got * p + 0.5 * (1 - p), b) if concrete(ctx) else (got * p + 0.5 * (1 - p) == b), "purity rescaling: tumour BAF * purity + 0.5 * (1 - purity) = observed BAF")
    ctx.cover("reached")


def _rows_cfgs():
    out = []
    for order in ([0, 1], [1, 0]):
        for fields in ("DP+AD", "AD", "DP"):
            out.append({"sample_names": ["S"], "pedigree": None, "sel": None, "normal_sel": None, "order": order, "skip_somatic": False, "fields": fields})
    out.append({"sample_names": ["S"], "pedigree": None, "sel": None, "normal_sel": None, "order": [0, 1], "skip_somatic": True})
    # DP/AD partly missing: one record states its depth, the other has a genotype only
    out.append({"sample_names": ["S"], "pedigree": None, "sel": None, "normal_sel": None, "order": [0, 1], "skip_somatic": False, "fields": ["DP+AD", "GT"]})
    out.append({"sample_names": ["S"], "pedigree": None, "sel": None, "normal_sel": None, "order": [1, 0], "skip_somatic": False, "fields": ["GT", "AD"]})
    out.append({"sample_names": ["T", "N"], "pedigree": None, "sel": "T", "normal_sel": "N", "order": [0, 1], "skip_somatic": False, "fields": ["DP", "GT"]})
    # INFO/DP present: it is used only when the sample has neither DP nor AD
    out.append({"sample_names": ["S"], "pedigree": None, "sel": None, "normal_sel": None, "order": [0, 1], "skip_somatic": False, "fields": "AD", "info_dp": True})
    out.append({"sample_names": ["S"], "pedigree": None, "sel": None, "normal_sel": None, "order": [1, 0], "skip_somatic": False, "fields": "GT", "info_dp": True})
    for ped in (None, ["T", "N"]):
        for sel, nsel in ((None, None), ("T", "N"), ("T", None), (0, 1), (None, "N"), ("N", None)):
            c = {"sample_names": ["T", "N"], "pedigree": ped, "sel": sel, "normal_sel": nsel, "order": [1, 0], "skip_somatic": sel is None}
            if sel == 0 or (ped and sel == "T" and nsel is None):
                c["tier"] = "thorough"
            out.append(c)
    out.append({"sample_names": ["N", "T"], "pedigree": ["T", "N"], "sel": None, "normal_sel": None, "order": [0, 1], "skip_somatic": False})
    # a third sample: the PEDIGREE pair wins over "every other sample is a tumour of the given normal"
    out.append({"sample_names": ["SIB", "T", "N"], "pedigree": ["T", "N"], "sel": None, "normal_sel": "N", "order": [0, 1], "skip_somatic": False, "fields": "DP", "plain": True})
    out.append({"sample_names": ["SIB", "T", "N"], "pedigree": ["T", "N"], "sel": "T", "normal_sel": "SIB", "order": [0, 1], "skip_somatic": False, "fields": "DP", "plain": True})
    out.append({"sample_names": ["S"], "pedigree": None, "sel": None, "normal_sel": None, "order": [2, 0, 1], "skip_somatic": False, "n": 3, "tier": "thorough"})
    return out


HARNESSES = [
    Harness("rows", h_rows, _rows_cfgs(), covers=["record kept", "record dropped", "normal without depth"], wall_s=400, thorough_wall_s=1800),
    Harness("load_het_snps", h_het, [{"tumor_boost": False}, {"tumor_boost": False, "zygosity_freq": 0.0}, {"tumor_boost": False, "zygosity_freq": 0.25, "tier": "thorough"}], covers=["dropped a homozygous record", "genotypes from frequencies"], wall_s=300),
    Harness("baf_by_ranges", h_baf, [{"above_half": None}, {"above_half": True}, {"above_half": False}, {"above_half": None, "tumor_boost": True}, {"above_half": True, "tumor_boost": True}, {"above_half": None, "one_chrom": True}], covers=["empty range", "two variants in a range"], wall_s=300),
    Harness("formulas", h_formulas, [{}], covers=["reached", "tie at zero"]),
    Harness("call_baf", h_call_baf, [{"filt": "ci"}, {"filt": "sem"}, {"filt": None}], covers=["reached"], wall_s=300),
]
