"""C19 -- robust estimators and smoothers obey their defining invariants."""
import math

import numpy as np

from symx.api import *
from symx.props.common import *

from cnvlib import descriptives as D
from cnvlib import smoothing as S

PROPERTY = "C19"
FUNCTIONS = [
    "cnvlib.descriptives.on_array/on_weighted_array (NaN stripping, trivial lengths)",
    "cnvlib.descriptives.weighted_median/median_absolute_deviation/interquartile_range/gapper_scale/q_n/weighted_mad/weighted_std",
    "cnvlib.descriptives.biweight_location/biweight_midvariance (n <= 2, constant data, and n - 1 equal values plus one far outlier)",
    "cnvlib.smoothing.check_inputs/_width2wing/_pad_array/rolling_median/kaiser (unweighted)/convolve_unweighted/savgol (weighted: convolve_weighted)",
]
BOUNDS = {
    "vector length": "quick: 1..4; thorough: up to 6 (estimators), 1..5 / 6 (smoothers)",
    "values": "symbolic reals in [-100, 100]; ties and all-equal vectors reachable (and as separate configurations); NaN positions concrete",
    "weights": "weighted median: symbolic reals >= 0 with positive total (equal-weights clause: common weight in [0.001, 10]; the implementation's tie tolerance is an absolute 2.2e-16); weighted MAD/std and weighted savgol: concrete positive weights incl. a dominant one",
    "widths": "fractions 0.3/0.5/0.99, integers 2, 3, 5 and wider than the signal",
    "scaling": "rescaling by concrete factors 2, -3, 1/2 (symbolic factor x symbolic data is nonlinear)",
}
NOT_COVERED = [
    "biweight_location / biweight_midvariance numerics for n > 2 with distinct values (degree-8 rational arithmetic: z3 nlsat does not terminate)",
    "modal_location (scipy gaussian_kde, compiled)",
    "unweighted savgol (scipy.signal.savgol_filter, compiled)",
    "vectors longer than 6; float64 rounding (linear filters are claimed with a slack of 1e-9*(1+max|x|))",
]
STUBS = []
ASSUMPTIONS = ["sqrt is an uninterpreted function with sqrt(u) >= 0, sqrt(u)^2 = u, monotone"]

R = 100


def vec(ctx, n, name="x", const=False):
    if const:
        c = ctx.real(name + "c", -R, R)
        return [c for _ in range(n)]
    return [ctx.real(f"{name}{i}", -R, R) for i in range(n)]


def arr(xs):
    a = np.empty(len(xs), dtype=object if any(isinstance(v, Sym) for v in xs) else float)
    for i, v in enumerate(xs):
        a[i] = v
    return a


# independent definitions as closed terms (no branching): sorting network on If-terms


def sort_terms(xs):
    xs = list(xs)
    n = len(xs)
    for i in range(n):
        for j in range(n - 1 - i):
            a, b = xs[j], xs[j + 1]
            xs[j], xs[j + 1] = Min2(a, b), Max2(a, b)
    return xs


def median_term(xs):
    s = sort_terms(xs)
    n = len(s)
    return s[n // 2] if n % 2 else (s[n // 2 - 1] + s[n // 2]) / 2


def percentile_term(xs, q):
    from fractions import Fraction

    s = sort_terms(xs)
    n = len(s)
    pos = Fraction(q) / 100 * (n - 1)
    lo = math.floor(pos)
    hi = min(lo + 1, n - 1)
    fr = pos - lo
    return s[lo] + (s[hi] - s[lo]) * fr


def in_range(v, xs, slack=0):
    return And(Or(*[v >= x - slack for x in xs]), Or(*[v <= x + slack for x in xs]), *[]) if False else And(v >= Min_(xs) - slack, v <= Max_(xs) + slack)


def Min_(xs):
    m = xs[0]
    for x in xs[1:]:
        m = Min2(m, x)
    return m


def Max_(xs):
    m = xs[0]
    for x in xs[1:]:
        m = Max2(m, x)
    return m


# ------------------------------------------------------------------ scale estimators


def _scale_fn(name):
    return {
        "mad": D.median_absolute_deviation,
        "iqr": D.interquartile_range,
        "gapper": D.gapper_scale,
        "qn": D.q_n,
    }[name]


def scale_oracle(name, xs):
    n = len(xs)
    if n == 1:
        return 0
    if name == "mad":
        m = median_term(xs)
        return median_term([Abs(x - m) for x in xs]) * 1.4826
    if name == "iqr":
        return percentile_term(xs, 75) - percentile_term(xs, 25)
    if name == "gapper":
        s = sort_terms(xs)
        tot = Sum([(s[i] - s[i - 1]) * (i * (n - i)) for i in range(1, n)])
        return tot * float(np.sqrt(np.pi)) / (n * (n - 1))
    if name == "qn":
        vals = [Abs(xs[i] - xs[j]) for i in range(n) for j in range(i + 1, n)]
        scale = 1.392 if n <= 10 else 1.0 + 4 / n
        return percentile_term(vals, 25) / scale
    raise KeyError(name)


def h_scale(ctx, name, n, const=False, nan_at=None):
    xs = vec(ctx, n, const=const)
    f = _scale_fn(name)
    data = list(xs)
    if nan_at is not None:
        data.insert(nan_at, float("nan"))
    try:
        got = f(arr(data))
    except Exception as exc:
        claim_raised(ctx, f"{name}", exc)
        return
    ctx.observe("value", got)
    ctx.claim(got >= 0, f"{name} is non-negative")
    ctx.claim(approx(got, scale_oracle(name, xs)), f"{name} agrees with an independent implementation of its formula")
    if const:
        ctx.claim(approx(got, 0), f"{name} is zero for constant data")
        ctx.cover("constant")
    if nan_at is not None:
        ctx.cover("nan ignored")
    ctx.cover("ties possible", Or(*[xs[i] == xs[j] for i in range(n) for j in range(i + 1, n)]) if n > 1 else False)


def h_scale_shift(ctx, name, n, factor):
    """f(a + c) = f(a) and f(k a) = |k| f(a)."""
    xs = vec(ctx, n)
    c = ctx.real("c", -R, R)
    f = _scale_fn(name)
    base = f(arr(xs))
    shifted = f(arr([x + c for x in xs]))
    ctx.observe("base", base)
    ctx.claim(approx(shifted, base), f"{name} is unchanged by adding a constant")
    scaled = f(arr([x * factor for x in xs]))
    ctx.claim(approx(scaled, base * abs(factor)), f"{name} is proportional under rescaling")
    ctx.cover("relational")


# ------------------------------------------------------------------ weighted median & co


def h_wmedian(ctx, n, equal=False, nan_at=None, zero_w=False):
    xs = vec(ctx, n)
    if equal:
        w0 = ctx.real("w", 0.001, 10)
        ws = [w0] * n
    else:
        ws = [ctx.real(f"w{i}", 0, 10) for i in range(n)]
        ctx.assume(Sum(ws) > 0)
        if zero_w:
            ctx.assume(ws[0] == 0)
    data, wd = list(xs), list(ws)
    if nan_at is not None:
        data.insert(nan_at, float("nan"))
        wd.insert(nan_at, 1.0)
    m = D.weighted_median(arr(data), arr(wd))
    if equal or n <= 3:
        # (with four free weights some paths need a cumulative weight exactly equal to half the
        # total; float64 sums miss such ties by an ulp and pick the neighbouring -- equally valid --
        # median, e.g. across a zero-weight value: claims only, no value comparison)
        ctx.observe("m", m)
    half = Sum(ws) / 2
    below = Sum([If(x < m, w, 0) for x, w in zip(xs, ws)])
    above = Sum([If(x > m, w, 0) for x, w in zip(xs, ws)])
    tol = 1e-9
    ctx.claim(below <= half + tol, "weight(values < m) <= half of the total weight")
    ctx.claim(above <= half + tol, "weight(values > m) <= half of the total weight")
    ctx.claim(And(m >= Min_(xs) - tol, m <= Max_(xs) + tol), "weighted median lies within the data range")
    if equal:
        ctx.claim(approx(m, median_term(xs)), "weighted median equals the ordinary median for equal weights")
        ctx.cover("equal weights")
    if n > 1:
        ctx.cover("exactly half below", below == half)
        ctx.cover("dominant weight", Or(*[w > half for w in ws]))
    if nan_at is not None:
        ctx.cover("nan ignored")


def h_wmedian_shift(ctx, n):
    xs = vec(ctx, n)
    ws = [[1.0, 2.0, 0.5, 3.0, 1.0, 0.25][i] for i in range(n)]
    c = ctx.real("c", -R, R)
    m = D.weighted_median(arr(xs), np.array(ws))
    m2 = D.weighted_median(arr([x + c for x in xs]), np.array(ws))
    ctx.observe("m", m)
    ctx.claim(approx(m2, m + c), "weighted median moves with the data when a constant is added")
    ctx.cover("relational")


WSETS = {2: [1.0, 3.0], 3: [1.0, 2.0, 0.5], 4: [1.0, 2.0, 0.5, 8.0], 5: [1.0, 1.0, 0.5, 2.0, 1.0]}


def h_wscale(ctx, name, n, const=False):
    xs = vec(ctx, n, const=const)
    ws = WSETS[n]
    f = {"wmad": D.weighted_mad, "wstd": D.weighted_std}[name]
    got = f(arr(xs), np.array(ws))
    ctx.observe("value", got)
    ctx.claim(got >= 0, f"{name} is non-negative")
    if const:
        ctx.claim(approx(got, 0), f"{name} is zero for constant data")
        ctx.cover("constant")
        return
    c = ctx.real("c", -R, R)
    got2 = f(arr([x + c for x in xs]), np.array(ws))
    ctx.claim(approx(got2, got), f"{name} is unchanged by adding a constant")
    got3 = f(arr([x * 2 for x in xs]), np.array(ws))
    if name == "wmad":
        ctx.claim(approx(got3, got * 2), f"{name} is proportional under rescaling")
    else:
        # sqrt is uninterpreted: compare the variances
        ctx.claim(approx(got3 * got3, got * got * 4), f"{name} is proportional under rescaling (squared)")
    if name == "wstd":
        W = sum(ws)
        mean = Sum([x * w for x, w in zip(xs, ws)]) / W
        var = Sum([(x - mean) * (x - mean) * w for x, w in zip(xs, ws)]) / W
        ctx.claim(approx(got * got, var), "weighted std squared is the weighted variance")
    ctx.cover("relational")


def h_biweight_outlier(ctx, n, side):
    """n - 1 equal values and one value more than 9 MAD-or-epsilon away: the published
    formulas discard the outlier, so the location is the common value and the midvariance
    is 0 (one structured family where the degree stays low enough for the solver)."""
    x = ctx.real("x", -R, R)
    y = ctx.real("y", -R, R)
    ctx.assume(y <= x - 1 if side == "low" else y >= x + 1)
    xs = [x] * (n - 1) + [y]
    loc = D.biweight_location(arr(xs))
    var = D.biweight_midvariance(arr(xs))
    ctx.observe("loc", loc)
    ctx.claim(approx(loc, x), "biweight location discards a far outlier among otherwise equal values")
    ctx.claim(approx(var, 0), "biweight midvariance discards a far outlier among otherwise equal values")
    ctx.cover("reached")


def h_biweight(ctx, which, n, const, nan_at=None):
    xs = vec(ctx, n, const=const)
    if nan_at is not None:
        data = list(xs)
        data.insert(nan_at, float("nan"))
        try:
            got = (D.biweight_location if which == "loc" else D.biweight_midvariance)(arr(data))
        except Exception as exc:
            claim_raised(ctx, f"biweight {which}", exc)
            return
        if which == "loc":
            ctx.claim(And(got >= Min_(xs) - 1e-9, got <= Max_(xs) + 1e-9), "biweight location ignores NaN and lies within the data range")
        else:
            ctx.claim(got >= 0, "biweight midvariance ignores NaN and is non-negative")
        if n == 1:
            ctx.claim(approx(got, xs[0] if which == "loc" else 0), "a single finite value among NaNs: location is that value, midvariance 0")
        ctx.cover("reached")
        return
    if which == "loc":
        got = D.biweight_location(arr(xs))
        ctx.observe("value", got)
        ctx.claim(And(got >= Min_(xs) - 1e-9, got <= Max_(xs) + 1e-9), "biweight location lies within the data range")
        if const:
            ctx.claim(approx(got, xs[0]), "biweight location of constant data is that constant")
    else:
        got = D.biweight_midvariance(arr(xs))
        # no observation: in real arithmetic two values are exactly symmetric about their
        # biweight location (MAD fallback), in float64 they are not (A1)
        ctx.claim(got >= 0, "biweight midvariance is non-negative")
        if const:
            ctx.claim(approx(got, 0), "biweight midvariance is zero for constant data")
    ctx.cover("reached")


# ------------------------------------------------------------------ smoothers


def mirror_pad(xs, wing):
    return list(xs[wing - 1 :: -1] if wing > 0 else []) + list(xs) + list(xs[: -wing - 1 : -1] if wing > 0 else [])


def wing_of(width, n):
    if 0 < width < 1:
        wing = int(math.ceil(n * width * 0.5))
    else:
        wing = int(min(width, n - 1) // 2)
    return min(max(wing, 3), n - 1)


def h_rolling_median(ctx, n, width, const=False):
    xs = vec(ctx, n, const=const)
    try:
        got = S.rolling_median(arr(xs), width)
    except Exception as exc:
        claim_raised(ctx, "rolling_median", exc)
        return
    got = list(got)
    ctx.observe("out", got)
    ctx.claim(len(got) == n, "rolling median returns one value per input value")
    if len(got) != n:
        return
    for v in got:
        ctx.claim(not is_nan(v), "rolling median values are finite")
        ctx.claim(And(v >= Min_(xs), v <= Max_(xs)), "rolling median stays within the input range")
        if const:
            ctx.claim(v == xs[0], "rolling median reproduces a constant signal exactly")
    if n >= 2:
        wing = wing_of(width, n)
        pad = mirror_pad(xs, wing)
        for i in range(n):
            ctx.claim(approx(got[i], median_term(pad[i : i + 2 * wing + 1])), "rolling median = median of the mirrored window")
    ctx.cover("const" if const else "general")


def h_kaiser(ctx, n, width, const=False):
    xs = vec(ctx, n, const=const)
    try:
        got = S.kaiser(arr(xs), width)
    except Exception as exc:
        claim_raised(ctx, "kaiser", exc)
        return
    got = list(got)
    ctx.observe("out", got)
    ctx.claim(len(got) == n, "kaiser returns one value per input value")
    slack = 1e-9 * (1 + R)
    for v in got[:n]:
        ctx.claim(not is_nan(v), "kaiser values are finite")
        ctx.claim(And(v >= Min_(xs) - slack, v <= Max_(xs) + slack), "kaiser stays within the input range")
        if const:
            ctx.claim(And(v - xs[0] <= slack, xs[0] - v <= slack), "kaiser reproduces a constant signal")
    ctx.cover("const" if const else "general")


def h_savgol_w(ctx, n, width, const=False, case=None):
    xs = vec(ctx, n, const=const)
    apply_case(ctx, case)
    ws = np.array(WSETS[n] if n in WSETS else [1.0] * n)
    try:
        got = S.savgol(arr(xs), width, weights=ws.copy())
    except Exception as exc:
        claim_raised(ctx, "savgol", exc)
        return
    got = list(got)
    ctx.observe("out", got)
    ctx.claim(len(got) == n, "weighted savgol returns one value per input value")
    slack = 1e-9 * (1 + R)
    for v in got[:n]:
        ctx.claim(not is_nan(v), "savgol values are finite")
        if const:
            ctx.claim(And(v - xs[0] <= slack, xs[0] - v <= slack), "weighted savgol reproduces a constant signal")
    ctx.cover("const" if const else "general")


# ------------------------------------------------------------------ configurations


def _scale_cfgs():
    out = []
    for name in ("mad", "iqr", "gapper", "qn"):
        for n in (1, 2, 3, 4, 5):
            c = {"name": name, "n": n}
            if n == 5 or (n == 4 and name == "qn"):
                c["tier"] = "thorough"
            out.append(c)
        out.append({"name": name, "n": 3, "const": True})
        out.append({"name": name, "n": 2, "nan_at": 1})
        out.append({"name": name, "n": 1, "nan_at": 0})  # exactly one finite value among NaNs
        out.append({"name": name, "n": 1, "nan_at": 1, "tier": "thorough"})
        out.append({"name": name, "n": 3, "nan_at": 0, "tier": "thorough"})
    return out


def _scale_shift_cfgs():
    out = []
    for name in ("mad", "iqr", "gapper", "qn"):
        for n, factor in ((2, 2), (3, -3), (3, 0.5), (4, 2)):
            c = {"name": name, "n": n, "factor": factor}
            if n == 4 or (name == "qn" and n == 3 and factor == 0.5):
                c["tier"] = "thorough"
            out.append(c)
    return out


def _wmed_cfgs():
    out = []
    for n in (1, 2, 3, 4):
        c = {"n": n}
        if n == 4:
            c["tier"] = "thorough"
        out.append(c)
        out.append({"n": n, "equal": True})
    out.append({"n": 5, "equal": True, "tier": "thorough"})
    out.append({"n": 6, "equal": True, "tier": "thorough"})
    out.append({"n": 2, "nan_at": 0})
    out.append({"n": 3, "zero_w": True})
    return out


def _smooth_cfgs(widths_quick, ns_quick, ns_thorough):
    out = []
    for n in ns_quick + ns_thorough:
        for width in widths_quick:
            if n == 1 or True:
                c = {"n": n, "width": width}
                if n in ns_thorough:
                    c["tier"] = "thorough"
                out.append(c)
        out.append(dict({"n": n, "width": 0.5, "const": True}, **({"tier": "thorough"} if n in ns_thorough else {})))
    return out


def _order_splits(n):
    return [(f"x{i}<=x{j}", f"x{i}>x{j}") for i in range(n) for j in range(i + 1, n)]


def _savgol_cfgs():
    out = []
    for n in (1, 2):
        for width in (3, 7, 9):
            out.append({"n": n, "width": width})
    for n in (2, 3, 4):
        out.append({"n": n, "width": 0.5, "const": True})
    # the overshoot test in savgol compares every output with max(x) and min(x): the case
    # split over the order of the inputs spreads those paths over the cores
    out += split_cases({"n": 3, "width": 7}, *_order_splits(3))
    for width in (3, 9):
        out += split_cases({"n": 3, "width": width, "tier": "thorough"}, *_order_splits(3))
    out += split_cases({"n": 4, "width": 7, "tier": "thorough"}, *_order_splits(4))
    return out


HARNESSES = [
    Harness("scale", h_scale, _scale_cfgs(), covers=["constant", "nan ignored", "ties possible"], wall_s=240, thorough_wall_s=1500),
    Harness("scale_shift", h_scale_shift, _scale_shift_cfgs(), covers=["relational"], wall_s=240, thorough_wall_s=1500),
    Harness("weighted_median", h_wmedian, _wmed_cfgs(), covers=["equal weights", "exactly half below", "dominant weight", "nan ignored"], wall_s=240, thorough_wall_s=1500),
    Harness("weighted_median_shift", h_wmedian_shift, [{"n": 2}, {"n": 3}, {"n": 4, "tier": "thorough"}], covers=["relational"], wall_s=240, thorough_wall_s=1500),
    Harness(
        "weighted_scale",
        h_wscale,
        [{"name": nm, "n": n} for nm in ("wmad", "wstd") for n in (2, 3)] + [{"name": nm, "n": 3, "const": True} for nm in ("wmad", "wstd")] + [{"name": "wstd", "n": 4, "tier": "thorough"}],
        covers=["relational", "constant"],
        wall_s=240,
        thorough_wall_s=1500,
    ),
    Harness(
        "biweight",
        h_biweight,
        [{"which": w, "n": n, "const": c} for w in ("loc", "var") for (n, c) in ((1, False), (2, False), (3, True), (4, True))]
        + [{"which": w, "n": n, "const": c, "nan_at": 0} for w in ("loc", "var") for (n, c) in ((1, False), (3, True))],
        covers=["reached"],
        wall_s=120,
        query_timeout_ms=20000,
    ),
    Harness("biweight_outlier", h_biweight_outlier, [{"n": n, "side": sd} for n in (3, 4, 5) for sd in ("low", "high")], covers=["reached"], wall_s=120, query_timeout_ms=20000),
    Harness("rolling_median", h_rolling_median, _smooth_cfgs((0.3, 0.5, 0.99, 2, 3, 5, 9), [1, 2, 3, 4], [5]), covers=["const", "general"], wall_s=240, thorough_wall_s=1500),
    Harness("kaiser", h_kaiser, _smooth_cfgs((0.3, 0.99, 3, 9), [1, 2, 3, 4], [5, 6]), covers=["const", "general"], wall_s=240, thorough_wall_s=1500),
    Harness("savgol_weighted", h_savgol_w, _savgol_cfgs(), covers=["const", "general"], wall_s=240, thorough_wall_s=1500),
]
