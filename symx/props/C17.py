"""C17 -- segment statistics and bin tests match their definitions on the right bins."""
import numpy as np
import pandas as pd

from symx.api import *
from symx.props.common import *
from symx.props.C19 import median_term, percentile_term, sort_terms, Min_, Max_

from cnvlib import segmetrics, bintest, descriptives

PROPERTY = "C17"
FUNCTIONS = [
    "cnvlib.segmetrics.do_segmetrics/make_pi_func/make_ci_func/calc_intervals/confidence_interval_bootstrap",
    "cnvlib.descriptives.median_absolute_deviation/mean_squared_error/interquartile_range (as called on the deviations)",
    "cnvlib.bintest.do_bintest/z_prob/p_adjust_bh, cnvlib.cnary.CopyNumArray.residuals",
    "skgenome.gary.GenomicArray.iter_ranges_of (which bins belong to which segment)",
]
BOUNDS = {
    "bins": "segments with 0, 1, 2 and 3 bins (thorough: 4) in one table; bin log2 and segment log2 symbolic; bin/segment coordinates concrete (the overlap rule itself is C07), one bin straddling a segment edge",
    "bootstrap": "alpha 0.5 -> 4 bootstraps (quick), alpha 0.25 -> 8 (thorough); resample indices are concrete (fixed seed), values symbolic, weights concrete and unequal",
    "BH": "p vectors of length 1..3 (4 thorough), symbolic in [0,1], ties, 0 and 1 reachable",
}
NOT_COVERED = [
    "t-test p-value and biweight midvariance numerics: only the values handed to them are decided (uninterpreted results); the real biweight_midvariance is run on one structured family (bivar_outlier)",
    "mode (scipy gaussian_kde); smoothed bootstrap (np.random.randn noise)",
    "symbolic bin weights inside the bootstrap (quotients of sums: ordering queries time out)",
    "segments of more than 4 bins",
]
STUBS = [
    "scipy.stats.ttest_1samp and descriptives.biweight_midvariance -> spies returning fresh values (their argument vectors are compared with the expected deviations / bins)",
    "scipy.stats.sem -> sqrt(var(ddof=1)/n) over proxies; scipy.stats.norm.cdf -> uninterpreted Phi with monotonicity and symmetry lemmas",
]
ASSUMPTIONS = []


class _StatsStub:
    def __init__(self, ctx, real_stats):
        self.ctx = ctx
        self.real = real_stats
        self.ttest_args = []

    def __getattr__(self, name):
        return getattr(self.real, name)

    def ttest_1samp(self, a, popmean, **kw):
        vals = list(a)
        self.ttest_args.append(vals)
        if concrete(self.ctx):
            return self.real.ttest_1samp(np.asarray(vals, dtype=float), popmean, **kw)
        k = len(self.ttest_args)
        return (0.0, self.ctx.real(f"p_ttest{k}", 0, 1))

    def sem(self, a, *args, **kw):
        vals = list(a)
        if concrete(self.ctx) or not any(isinstance(v, Sym) for v in vals):
            return self.real.sem(np.asarray(vals, dtype=float), *args, **kw)
        n = len(vals)
        if n < 2:
            return float("nan")
        m = Sum(vals) / n
        var = Sum([(v - m) * (v - m) for v in vals]) / (n - 1)
        return sqrt(var / n)


# bins: chr1 0-10,10-20,...; segments chosen so that they hold 3, 1, 0 and 2 bins
def layout(nbig):
    bins = [("chr1", 10 * i, 10 * i + 10) for i in range(nbig + 1)] + [("chr2", 0, 10), ("chr2", 10, 20)]
    segs = [("chr1", 0, 10 * nbig - 5), ("chr1", 10 * nbig, 10 * nbig + 10), ("chr1", 500, 600), ("chr2", 0, 20)]
    # bin index sets per segment ('outer' overlap: the bin straddling the first segment's end counts)
    members = [list(range(nbig)), [nbig], [], [nbig + 1, nbig + 2]]
    return bins, segs, members


def h_stats(ctx, nbig, stats_cfg, alpha=0.5, skip_low=False, smoothed=False, filtered_segments=False):
    bins, segs, members = layout(nbig)
    if skip_low:
        # a null-coverage bin in front: it is dropped first, so row labels no longer equal positions
        bins = [("chr1", 0, 1)] + [(c, s + 1 if c == "chr1" and s == 0 else s, e) for c, s, e in bins]
        members = [[i + 1 for i in m] for m in members]
    nb = len(bins)
    logs = [ctx.real(f"b{i}", -10, 10) for i in range(nb)]
    if skip_low:
        logs[0] = -30.0
    slog = [ctx.real(f"s{k}", -10, 10) for k in range(len(segs))]
    wts = [[0.5, 1.0, 0.25, 0.75, 0.9, 0.6, 0.3][i % 7] for i in range(nb)]
    cna = make_cna({"chromosome": [b[0] for b in bins], "start": [b[1] for b in bins], "end": [b[2] for b in bins], "gene": ["g"] * nb, "log2": list(logs), "weight": wts})
    sega = make_cna({"chromosome": [s[0] for s in segs], "start": [s[1] for s in segs], "end": [s[2] for s in segs], "gene": ["-"] * len(segs), "log2": list(slog), "probes": [len(m) for m in members]})
    if filtered_segments:
        # the segment table is a row subset of a larger one: its row labels do not start at 0
        lead = make_cna({"chromosome": ["chr0"], "start": [0], "end": [5], "gene": ["-"], "log2": [0.0], "probes": [0]})
        lead.add(sega)
        sega = lead[lead.chromosome != "chr0"]
    loc, spread, interval = stats_cfg
    stub = _StatsStub(ctx, segmetrics.stats)
    bivar_args = []
    real_bivar = descriptives.biweight_midvariance

    def bivar_spy(a, **kw):
        vals = list(a)
        bivar_args.append(vals)
        if concrete(ctx):
            return real_bivar(np.asarray(vals, dtype=float), **kw)
        return ctx.real(f"bivar{len(bivar_args)}", 0, 100)

    orig_stats = segmetrics.stats
    segmetrics.stats = stub
    descriptives.biweight_midvariance = bivar_spy
    ci_args = []
    real_ci = segmetrics.confidence_interval_bootstrap

    def ci_spy(values, weights, *a, **k):
        ci_args.append((list(values), list(weights)))
        return real_ci(values, weights, *a, **k)

    segmetrics.confidence_interval_bootstrap = ci_spy
    try:
        out = segmetrics.do_segmetrics(cna, sega, loc, spread, interval, alpha, 4 if alpha == 0.5 else 8, smoothed, skip_low)
    except Exception as exc:
        claim_raised(ctx, "do_segmetrics", exc)
        return
    finally:
        segmetrics.stats = orig_stats
        descriptives.biweight_midvariance = real_bivar
        segmetrics.confidence_interval_bootstrap = real_ci
    ctx.claim(len(out) == len(segs), "one output row per segment")
    if "ci" in interval:
        want_ci = [([logs[i] for i in mem], [wts[i] for i in mem]) for mem in members if mem]
        ctx.claim(len(ci_args) == len(want_ci) and all(len(a[0]) == len(b[0]) and all(bool(approx(x, y)) for x, y in zip(a[0], b[0])) and all(bool(approx(x, y)) for x, y in zip(a[1], b[1])) for a, b in zip(ci_args, want_ci)), "the bootstrap is run on exactly the segment's own bins and their own weights")
    for name, vals in (("log2", slog), ("start", [s[1] for s in segs]), ("end", [s[2] for s in segs])):
        ctx.claim(all(bool(approx(a, b)) for a, b in zip(col(out, name), vals)), "the input segments' own columns are unchanged")
    for a, b in zip(col(sega, "log2"), slog):
        ctx.claim(approx(a, b), "the input segment table is not modified")
    for k, mem in enumerate(members):
        xs = [logs[i] for i in mem]
        devs = [x - slog[k] for x in xs]

        def get(name):
            return col(out, name)[k]

        if not mem:
            for name in loc + spread:
                if name not in ("p_ttest", "bivar"):
                    ctx.claim(is_nan(get(name)), f"{name} of a segment without bins is missing")
            ctx.cover("empty segment")
            continue
        n = len(mem)
        if "mean" in loc:
            ctx.claim(approx(get("mean"), Sum(xs) / n), "mean is the mean of exactly the bins overlapping the segment")
        if "median" in loc:
            ctx.claim(approx(get("median"), median_term(xs)), "median is the median of exactly the overlapping bins")
        if "stdev" in spread and n >= 1:
            m = Sum(devs) / n
            var = Sum([(d - m) * (d - m) for d in devs]) / n
            g = get("stdev")
            ctx.claim(And(g >= 0, approx(g * g, var)), "stdev is the standard deviation of the deviations from the segment log2")
        if "mad" in spread:
            dm = median_term(devs)
            want = median_term([Abs(d - dm) for d in devs]) * 1.4826 if n > 1 else 0
            ctx.claim(approx(get("mad"), want), "mad is the MAD of the deviations")
        if "mse" in spread:
            want = Sum([d * d for d in devs]) / n if n > 1 else 0
            ctx.claim(approx(get("mse"), want), "mse is the mean squared deviation from the segment log2")
        if "iqr" in spread:
            want = percentile_term(devs, 75) - percentile_term(devs, 25) if n > 1 else 0
            ctx.claim(approx(get("iqr"), want), "iqr is the interquartile range of the deviations")
        if "sem" in spread and n >= 2:
            m = Sum(devs) / n
            var = Sum([(d - m) * (d - m) for d in devs]) / (n - 1)
            g = get("sem")
            ctx.claim(And(g >= 0, approx(g * g * n, var)), "sem is the standard error of the mean of the deviations")
        if "pi" in interval:
            lo, hi = get("pi_lo"), get("pi_hi")
            ctx.claim(approx(lo, percentile_term(xs, 100 * alpha / 2)), "pi_lo is the alpha/2 percentile of the bins")
            ctx.claim(approx(hi, percentile_term(xs, 100 * (1 - alpha / 2))), "pi_hi is the 1-alpha/2 percentile of the bins")
            ctx.claim(And(lo <= median_term(xs), median_term(xs) <= hi), "pi_lo <= median <= pi_hi")
        if "ci" in interval:
            lo, hi = get("ci_lo"), get("ci_hi")
            ctx.claim(lo <= hi, "ci_lo <= ci_hi")
            if not smoothed:
                ctx.claim(And(lo >= Min_(xs) - 1e-9, hi <= Max_(xs) + 1e-9), "the bootstrap interval lies inside the bins' range")
        ctx.cover(f"segment with {min(n, 3)} bins")
    if "p_ttest" in loc:
        want = [[logs[i] for i in mem] for mem in members]
        ctx.claim(len(stub.ttest_args) == len(want) and all(len(a) == len(b) and all(bool(approx(x, y)) for x, y in zip(a, b)) for a, b in zip(stub.ttest_args, want)), "the t-test is computed on exactly the bins overlapping each segment")
    if "bivar" in spread:
        want = [[logs[i] - slog[k] for i in mem] for k, mem in enumerate(members)]
        ctx.claim(len(bivar_args) == len(want) and all(len(a) == len(b) and all(bool(approx(x, y)) for x, y in zip(a, b)) for a, b in zip(bivar_args, want)), "the biweight midvariance is computed on exactly the deviations from the segment log2")
    if "ci" in interval:
        # reproducible run to run
        segmetrics.stats = stub
        try:
            out2 = segmetrics.do_segmetrics(cna, sega, (), (), ("ci",), alpha, 4 if alpha == 0.5 else 8, smoothed, skip_low)
        finally:
            segmetrics.stats = orig_stats
        for a, b in zip(col(out, "ci_lo") + col(out, "ci_hi"), col(out2, "ci_lo") + col(out2, "ci_hi")):
            ctx.claim(approx(a, b) if not (is_nan(a) and is_nan(b)) else True, "the bootstrap interval is reproducible run to run")


def bh_oracle(ps):
    """Benjamini-Hochberg step-up, from its definition: q_i = min over j with p_j >= p_i
    (in sorted order: rank_j >= rank_i) of min(1, n * p_j / rank_j)."""
    n = len(ps)
    srt = sort_terms(ps)
    adj = [Min2(1, srt[j] * n / (j + 1)) for j in range(n)]
    # running minimum from the top
    run = [None] * n
    cur = adj[n - 1]
    run[n - 1] = cur
    for j in range(n - 2, -1, -1):
        cur = Min2(cur, adj[j])
        run[j] = cur
    # q for an original p: the value at its rank; ties share the smallest (any rank of the tie gives, after the
    # running minimum, the value at the lowest rank among equal p's .. which equals the value at every tied rank
    # only if taken at the lowest): use the lowest rank position holding an equal value
    out = []
    for p in ps:
        q = run[n - 1]
        for j in range(n - 1, -1, -1):
            q = If(srt[j] == p, run[j], q)
        out.append(q)
    return out


def close(a, b, tol=1e-9):
    """Equality up to the rounding of concrete float coefficients in the code (e.g. 4/3 as a double)."""
    d = a - b
    return And(d <= tol, -d <= tol) if isinstance(d, Sym) else abs(d) <= tol


def h_bh(ctx, n):
    ps = [ctx.real(f"p{i}", 0, 1) for i in range(n)]
    got = list(bintest.p_adjust_bh(obj_col(ps)))
    ctx.observe("q", got)
    want = bh_oracle(ps)
    for g, w, p in zip(got, want, ps):
        ctx.claim(close(g, w), "p_adjust_bh equals the Benjamini-Hochberg step-up adjustment")
        ctx.claim(And(g >= p - 1e-9, g <= 1), "adjusted p lies in [p, 1]")
    ctx.cover("ties", Or(*[ps[i] == ps[j] for i in range(n) for j in range(i + 1, n)]) if n > 1 else False)
    ctx.cover("capped at 1", Or(*[g == 1 for g in got]))


class _NormStub:
    def __init__(self, real):
        self.real = real

    def cdf(self, x):
        if isinstance(x, (pd.Series, np.ndarray)) and getattr(x, "dtype", None) == object:
            vals = [phi(v) for v in list(x)]
            return pd.Series(obj_col(vals), index=x.index) if isinstance(x, pd.Series) else obj_col(vals)
        if isinstance(x, Sym):
            return phi(x)
        return self.real.cdf(x)


def h_bintest(ctx, target_only, two_chrom=False, anti_name="Antitarget"):
    """do_bintest with segments: hits are exactly the bins whose BH-adjusted two-sided p is below alpha.
    two_chrom: bins on two chromosomes, the segment table listing them in the other order -- each
    bin is still tested against the mean of the segment it lies in."""
    if two_chrom:
        bins = [("chr1", 0, 10, "A"), ("chr2", 0, 10, anti_name), ("chr2", 10, 20, "B")]
    else:
        bins = [("chr1", 0, 10, "A"), ("chr1", 10, 20, anti_name), ("chr1", 20, 30, "B")]
    logs = [ctx.real(f"b{i}", -5, 5) for i in range(3)]
    wts = [0.75, 0.5, 0.9375]  # 1 - w has an exact square root: sd = 0.5, ~0.707, 0.25
    sl = ctx.real("seg", -5, 5)
    alpha = ctx.real("alpha", 0, 1, lo_open=True, hi_open=True)
    cna = make_cna({"chromosome": [b[0] for b in bins], "start": [b[1] for b in bins], "end": [b[2] for b in bins], "gene": [b[3] for b in bins], "log2": list(logs), "weight": wts})
    if two_chrom:
        sl2 = ctx.real("seg2", -5, 5)
        sega = make_cna({"chromosome": ["chr2", "chr1"], "start": [0, 0], "end": [20, 10], "gene": ["-", "-"], "log2": [sl2, sl]})
        seg_of = [sl, sl2, sl2]
    else:
        sega = make_cna({"chromosome": ["chr1"], "start": [0], "end": [30], "gene": ["-"], "log2": [sl]})
        seg_of = [sl, sl, sl]
    orig = bintest.norm
    bintest.norm = _NormStub(orig)
    try:
        hits = bintest.do_bintest(cna, sega, alpha, target_only)
    except Exception as exc:
        claim_raised(ctx, "do_bintest", exc)
        return
    finally:
        bintest.norm = orig
    got = {(r.chromosome, r.start): r for r in hits.data.itertuples(index=False)}
    ctx.observe("hits", [list(k) for k in sorted(got)])
    use = [i for i in range(3) if not (target_only and i == 1)]  # bin 1 is the off-target one (any of its aliases)
    zs = [(logs[i] - seg_of[i]) / float(np.sqrt(1 - wts[i])) for i in use]
    ps = [2 * phi(-Abs(z)) for z in zs]
    qs = bh_oracle(ps)
    for i, q in zip(use, qs):
        want = q < alpha
        key = (bins[i][0], bins[i][1])
        isin = key in got
        ctx.claim(Iff(isin, want), "bintest returns exactly the bins whose BH-adjusted two-sided normal p is below alpha")
        if isin:
            ctx.claim(approx(got[key].p_bintest, q), "reported p_bintest is the adjusted p")
            ctx.claim(approx(got[key].log2, logs[i] - seg_of[i]), "reported log2 is the residual from the segment mean")
            ctx.cover("hit")
        else:
            ctx.cover("no hit")
    if target_only:
        ctx.claim(not [k for k in got if k == (bins[1][0], bins[1][1])], "off-target bins are excluded when asked")
    # the same tables tested again (a second alpha scan, segmetrics after bintest): the bin table
    # handed in still holds the caller's log2, and the answer is the same
    ctx.claim(And(*[approx(a, b) for a, b in zip(list(cna.data["log2"]), logs)]), "the bin table handed to bintest still holds its own log2 afterwards")
    bintest.norm = _NormStub(orig)
    try:
        hits2 = bintest.do_bintest(cna, sega, alpha, target_only)
    except Exception as exc:
        claim_raised(ctx, "do_bintest (second call)", exc)
        return
    finally:
        bintest.norm = orig
    got2 = {(r.chromosome, r.start): r for r in hits2.data.itertuples(index=False)}
    ctx.claim(sorted(got2) == sorted(got), "testing the same tables a second time returns the same bins")
    for k in got:
        if k in got2:
            ctx.claim(And(approx(got2[k].p_bintest, got[k].p_bintest), approx(got2[k].log2, got[k].log2)), "testing the same tables a second time returns the same p and residual")


def h_bivar_outlier(ctx, n, side):
    """segmetrics' bivar with the real biweight_midvariance, on the structured family the solver can
    reach (as C19): n - 1 bins at the segment's own log2 (deviation 0) and one bin far away -- the
    published estimator discards the outlier, low or high, so bivar is 0."""
    sl = ctx.real("seg", -5, 5)
    y = ctx.real("y", -30, 30)
    ctx.assume(y <= sl - 1 if side == "low" else y >= sl + 1)
    pos = ctx.choice("at", list(range(n)))
    logs = [sl] * n
    logs[pos] = y
    cna = make_cna({"chromosome": ["chr1"] * n, "start": [10 * i for i in range(n)], "end": [10 * i + 10 for i in range(n)], "gene": ["g"] * n, "log2": list(logs), "weight": [0.5] * n})
    sega = make_cna({"chromosome": ["chr1"], "start": [0], "end": [10 * n], "gene": ["-"], "log2": [sl], "probes": [n]})
    try:
        out = segmetrics.do_segmetrics(cna, sega, [], ["bivar"], [])
    except Exception as exc:
        claim_raised(ctx, "do_segmetrics", exc)
        return
    v = col(out, "bivar")[0]
    ctx.observe("bivar", v)
    ctx.claim(approx(v, 0), "bivar is the biweight midvariance of the deviations: a far outlier among otherwise zero deviations is discarded, low or high")
    ctx.cover("reached")


def h_bintest_boundary(ctx):
    """'returns exactly the bins whose adjusted p is BELOW alpha': alpha is set to an adjusted p that a
    first run reported (the very same number, so the comparison is exact in the concrete replay too);
    the bin carrying it must then not be returned."""
    bins = [("chr1", 0, 10, "A"), ("chr1", 10, 20, "B"), ("chr1", 20, 30, "C")]
    logs = [ctx.real(f"b{i}", -5, 5) for i in range(3)]
    ctx.assume(And(*[Abs(l) >= 0.125 for l in logs]))
    wts = [0.75, 0.5, 0.9375]
    cna = make_cna({"chromosome": [b[0] for b in bins], "start": [b[1] for b in bins], "end": [b[2] for b in bins], "gene": [b[3] for b in bins], "log2": list(logs), "weight": wts})
    sega = make_cna({"chromosome": ["chr1"], "start": [0], "end": [30], "gene": ["-"], "log2": [0.0]})
    orig = bintest.norm
    bintest.norm = _NormStub(orig)
    try:
        first = bintest.do_bintest(cna, sega, 0.9999, False)
        ps = col(first, "p_bintest")
        if not ps:
            return
        alpha = ps[ctx.choice("which", list(range(len(ps)))) if len(ps) > 1 else 0]
        if not bool(And(alpha > 0, alpha < 1)):
            return
        second = bintest.do_bintest(cna, sega, alpha, False)
    except Exception as exc:
        claim_raised(ctx, "do_bintest", exc)
        return
    finally:
        bintest.norm = orig
    for r in second.data.itertuples(index=False):
        ctx.claim(r.p_bintest < alpha, "a returned bin's adjusted p is strictly below alpha (a bin exactly at alpha is not a hit)")
    ctx.claim(len(second) < len(first), "the bin whose adjusted p equals alpha is not returned")
    ctx.cover("reached")


ALL_LOC = ("mean", "median", "p_ttest")
ALL_SPREAD = ("stdev", "mad", "mse", "iqr", "bivar", "sem")

HARNESSES = [
    Harness(
        "segment_stats",
        h_stats,
        [
            {"nbig": 3, "stats_cfg": [list(ALL_LOC), [], []]},
            {"nbig": 3, "stats_cfg": [[], ["stdev", "mse", "sem", "bivar"], []]},
            {"nbig": 3, "stats_cfg": [[], ["mad"], []]},
            {"nbig": 3, "stats_cfg": [[], ["iqr"], []]},
            {"nbig": 3, "stats_cfg": [["median"], [], ["pi"]]},
            {"nbig": 3, "stats_cfg": [[], [], ["ci"]]},
            {"nbig": 3, "stats_cfg": [["mean"], ["stdev"], ["ci", "pi"]], "skip_low": True},
            {"nbig": 2, "stats_cfg": [[], [], ["ci"]], "smoothed": True},
            {"nbig": 2, "stats_cfg": [list(ALL_LOC), list(ALL_SPREAD), ["pi", "ci"]]},
            {"nbig": 2, "stats_cfg": [["mean", "median"], ["stdev", "mad"], ["pi"]], "filtered_segments": True},
            {"nbig": 4, "stats_cfg": [["mean", "median"], ["stdev", "mse", "sem"], ["pi"]], "tier": "thorough"},
            {"nbig": 3, "stats_cfg": [[], [], ["ci", "pi"]], "alpha": 0.25, "tier": "thorough"},
            {"nbig": 4, "stats_cfg": [[], ["mad", "iqr"], []], "tier": "thorough"},
        ],
        covers=["empty segment", "segment with 1 bins", "segment with 2 bins", "segment with 3 bins"],
        wall_s=300,
        thorough_wall_s=1500,
    ),
    Harness("bivar_outlier", h_bivar_outlier, [{"n": n, "side": sd} for n in (3, 4) for sd in ("low", "high")], covers=["reached"], wall_s=200, query_timeout_ms=60000),
    Harness("p_adjust_bh", h_bh, [{"n": 1}, {"n": 2}, {"n": 3}, {"n": 4, "tier": "thorough"}], covers=["ties", "capped at 1"], wall_s=240, thorough_wall_s=1500),
    Harness("bintest_boundary", h_bintest_boundary, [{}], covers=["reached"], wall_s=300),
    Harness("bintest", h_bintest, [{"target_only": False}, {"target_only": True}, {"target_only": False, "two_chrom": True}, {"target_only": True, "anti_name": "Background"}], covers=["hit", "no hit"], wall_s=300, thorough_wall_s=1500),
]
