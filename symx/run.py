"""symx.run -- command line driver:  python -m symx.run <ID> [--tier quick|thorough] [--replay PATH]

Exit codes: 0 property held on everything explored (listed known findings are
printed as KNOWN-FINDING lines); 1 a reproduced violation that is not a listed
finding (VIOLATION line); 2 harness error / inconclusive (never a verdict).
"""
from __future__ import annotations

import argparse
import hashlib
import importlib
import json
import multiprocessing as mp
import multiprocessing.connection as mpc
import os
import random
import re
import subprocess
import sys
import time
import traceback

sys.set_int_max_str_digits(0)
VERIF = os.path.dirname(os.path.dirname(os.path.abspath(__file__)))
OUT = os.path.join(VERIF, "out")
EVID = os.path.join(VERIF, "evidence")
KNOWN_FILE = os.path.join(VERIF, "known_findings.json")


def load_known(pid):
    if not os.path.isfile(KNOWN_FILE):
        return []
    with open(KNOWN_FILE) as fh:
        data = json.load(fh)
    return [e for e in data.get("findings", []) if e.get("property") == pid]


def load_prop(pid):
    return importlib.import_module(f"symx.props.{pid}")


def harness_by_name(mod, name):
    for h in mod.HARNESSES:
        if h.name == name:
            return h
    raise KeyError(name)


# ---------------------------------------------------------------------------
# symbolic worker (runs in a forked child; the hook is installed in the parent)


def sym_worker(pid, hname, config, tier):
    from . import core

    mod = load_prop(pid)
    h = harness_by_name(mod, hname)
    known = [
        (e["id"], e.get("label", ".*"), e["when"])
        for e in load_known(pid)
        if e.get("status") == "known" and re.search(e.get("harness", ".*"), hname)
    ]
    wall = h.wall_s if tier == "quick" else h.thorough_wall_s
    ctx = core.SymCtx(query_timeout_ms=h.query_timeout_ms, max_paths=h.max_paths, wall_s=wall, known=known)
    ctx.keep_uf = h.keep_uf
    ctx.nonce_fork = getattr(h, "nonce_fork", True)
    if tier == "thorough":
        ctx.max_recorded_paths = 400
        ctx.record_stride = 3
    # a sample of discharged obligations is re-discharged by two other solvers
    ctx.export_every, ctx.export_max = (97, 2) if tier == "quick" else (41, 6)
    t0 = time.time()
    status = "ok"
    err = None
    exhaustive = False
    try:
        exhaustive = core.explore(h.fn, config, ctx)
    except core.HarnessError as e:
        status = "harness_error"
        err = f"HarnessError: {e}"
    except core.EngineSignal as e:
        status = "harness_error"
        err = f"{type(e).__name__}: {e}"
    except Exception:
        status = "harness_error"
        err = traceback.format_exc()[-3000:]
    return {
        "harness": hname,
        "config": config,
        "status": status,
        "error": err,
        "exhaustive": bool(exhaustive),
        "paths": ctx.n_paths,
        "pruned": ctx.n_pruned,
        "branch_points": ctx.n_decisions,
        "queries": ctx.n_queries,
        "solver_s": round(ctx.solver_s, 3),
        "solver_retries": getattr(ctx, "n_retries", 0),
        "solver_portfolio": getattr(ctx, "n_portfolio", 0),
        "obligations": ctx.n_oblig,
        "discharged": ctx.n_discharged,
        "concrete_true": ctx.n_concrete_true,
        "candidates": ctx.candidates,
        "inconclusive": ctx.inconclusive[:10],
        "n_inconclusive": len(ctx.inconclusive),
        "aborted": ctx.aborted[:10],
        "n_aborted": len(ctx.aborted),
        "covers": sorted(ctx.covers),
        "path_records": ctx.paths if h.replay else [],
        "samples": ctx.samples,
        "exported": ctx.exported,
        "wall_s": round(time.time() - t0, 2),
    }


def _child(conn, fn, args):
    try:
        res = fn(*args)
    except BaseException:
        res = {"status": "harness_error", "error": traceback.format_exc()[-3000:]}
    try:
        conn.send(res)
    except Exception:
        conn.send({"status": "harness_error", "error": "result not picklable: " + traceback.format_exc()[-2000:]})
    conn.close()


def run_parallel(jobs, fn, nproc, limit_of):
    """jobs: list of arg tuples.  Each runs fn(*args) in a forked process under
    a wall-clock kill.  Returns results in job order."""
    ctx = mp.get_context("fork")
    results = [None] * len(jobs)
    pending = list(range(len(jobs)))
    running = {}
    while pending or running:
        while pending and len(running) < nproc:
            i = pending.pop(0)
            parent, child = ctx.Pipe(duplex=False)
            p = ctx.Process(target=_child, args=(child, fn, jobs[i]))
            p.start()
            child.close()
            running[parent] = (i, p, time.time())
        ready = mpc.wait(list(running), timeout=0.25)
        for conn in ready:
            i, p, t0 = running.pop(conn)
            try:
                results[i] = conn.recv()
            except EOFError:
                results[i] = {"status": "harness_error", "error": f"worker died (exit {p.exitcode})"}
            conn.close()
            p.join()
        now = time.time()
        for conn in list(running):
            i, p, t0 = running[conn]
            if now - t0 > limit_of(jobs[i]):
                p.kill()
                p.join()
                running.pop(conn)
                conn.close()
                results[i] = {"status": "killed", "error": "wall-clock limit: worker killed"}
    return results


# ---------------------------------------------------------------------------


def ensure_deps():
    deps = os.path.join(VERIF, ".deps")
    if not os.path.isdir(os.path.join(deps, "z3")):
        subprocess.check_call(
            [
                "/venv/bin/python",
                "-m",
                "pip",
                "install",
                "--quiet",
                "--no-index",
                "--no-deps",
                "--find-links",
                "/opt/veriftools/wheels",
                "--target",
                deps,
                "z3-solver",
            ]
        )


def cex_path(pid, cand):
    os.makedirs(os.path.join(OUT, pid), exist_ok=True)
    blob = json.dumps({k: cand[k] for k in ("harness", "config", "inputs", "label")}, sort_keys=True)
    hsh = hashlib.sha1(blob.encode()).hexdigest()[:12]
    return os.path.join(OUT, pid, f"cex-{hsh}.json")


def classify(pid, hname, config, label, inputs, known):
    """Which listed finding (if any) explains this reproduced violation."""
    from .core import And, If, Not, Or, Abs

    for e in known:
        if e.get("status") != "known":
            continue
        if not re.search(e.get("harness", ".*"), hname):
            continue
        if not re.search(e.get("label", ".*"), label):
            continue
        ns = {"inp": inputs, "cfg": config, "And": And, "Or": Or, "Not": Not, "If": If, "Abs": Abs}
        try:
            if eval(e["when"], ns):
                return e
        except Exception:
            continue
    return None


def _one_external(args):
    solver, path = args
    if solver == "z3-4.8.12":
        cmd = ["/usr/bin/z3", "-T:30", path]
    else:
        cmd = ["cvc5", "--lang=smt2", "--tlimit=30000", "--strings-exp", path]
    try:
        p = subprocess.run(cmd, capture_output=True, text=True, timeout=45)
        out = (p.stdout + p.stderr).strip().splitlines()
        if any(l.startswith("(error") for l in out):
            return "error"
        for l in out:
            if l.strip() in ("sat", "unsat", "unknown"):
                return l.strip()
        return "unknown"
    except subprocess.TimeoutExpired:
        return "timeout"
    except OSError:
        return "missing"


def cross_check(pid, exported, rnd, limit, nproc):
    """Re-discharge a sample of the obligations z3 5.x answered `unsat` with /usr/bin/z3
    4.8.12 and the cvc5 binary.  `sat` from either is a disagreement (inconclusive run);
    unknown / timeout / error are counted but prove nothing."""
    stats = {"obligations_rechecked": 0, "z3-4.8.12": {}, "cvc5": {}, "disagreements": []}
    if not exported:
        return stats
    if len(exported) > limit:
        exported = rnd.sample(exported, limit)
    d = os.path.join(OUT, pid, f"xcheck-{os.getpid()}")
    os.makedirs(d, exist_ok=True)
    jobs = []
    try:
        for i, e in enumerate(exported):
            path = os.path.join(d, f"o{i}.smt2")
            with open(path, "w") as fh:
                fh.write(e["smt2"])
            for sname in ("z3-4.8.12", "cvc5"):
                jobs.append((sname, path, e["label"]))
        from concurrent.futures import ThreadPoolExecutor

        with ThreadPoolExecutor(max_workers=max(1, nproc)) as ex:
            res = list(ex.map(_one_external, [(j[0], j[1]) for j in jobs]))
        stats["obligations_rechecked"] = len(exported)
        for (sname, path, label), r in zip(jobs, res):
            stats[sname][r] = stats[sname].get(r, 0) + 1
            if r == "sat":
                stats["disagreements"].append({"solver": sname, "label": label})
    finally:
        import shutil

        shutil.rmtree(d, ignore_errors=True)
    return stats


def run_replays(pid, items, nproc):
    """items: list of {harness, config, inputs, label?, obs?}.  Runs them on the
    untouched real code in a separate interpreter without the import hook."""
    if not items:
        return []
    os.makedirs(os.path.join(OUT, pid), exist_ok=True)
    tag = f"{os.getpid()}-{int(time.time() * 1000) % 100000}"
    inp = os.path.join(OUT, pid, f"replay-in-{tag}.json")
    outp = os.path.join(OUT, pid, f"replay-out-{tag}.json")
    with open(inp, "w") as fh:
        json.dump({"property": pid, "items": items, "nproc": nproc}, fh)
    env = dict(os.environ)
    env["PYTHONPATH"] = VERIF + os.pathsep + os.path.join(VERIF, ".deps")
    env.pop("SYMX_HOOK", None)
    try:
        subprocess.run(["/venv/bin/python", "-m", "symx.replay", inp, outp], cwd=VERIF, env=env, check=True, timeout=3600)
        with open(outp) as fh:
            return json.load(fh)["results"]
    finally:
        for p in (inp, outp):
            if os.path.exists(p):
                os.remove(p)


def main(argv=None):
    ap = argparse.ArgumentParser()
    ap.add_argument("pid")
    ap.add_argument("--tier", default=os.environ.get("VERIF_TIER", "quick"), choices=["quick", "thorough"])
    ap.add_argument("--replay", default=None)
    ap.add_argument("--only", default=None, help="regex on harness names (debugging)")
    ap.add_argument("--jobs", type=int, default=int(os.environ.get("VERIF_JOBS", "16")))
    ap.add_argument("--no-evidence", action="store_true")
    ap.add_argument("--verbose", "-v", action="store_true")
    ap.add_argument("--cfg", default=None, help="regex on the json of the config (debugging)")
    args = ap.parse_args(argv)
    pid = args.pid
    seed = int(os.environ.get("VERIF_SEED", "0") or 0)
    t_start = time.time()
    ensure_deps()

    if args.replay:
        with open(args.replay) as fh:
            cand = json.load(fh)
        res = run_replays(pid, [cand], 1)[0]
        print(json.dumps(res, indent=1)[:4000])
        if res["status"] == "ok" and any(f["label"] == cand.get("label") for f in res["failed"]):
            print(f"VIOLATION property={pid} replay={args.replay}")
            return 1
        print("not reproduced")
        return 0

    # counterexample files of earlier runs of this property are stale
    od = os.path.join(OUT, pid)
    if os.path.isdir(od):
        for fn in os.listdir(od):
            if fn.startswith(("cex-", "replay-")):
                try:
                    os.remove(os.path.join(od, fn))
                except OSError:
                    pass

    from . import loader

    loader.install()
    mod = load_prop(pid)
    known = load_known(pid)

    jobs = []
    for h in mod.HARNESSES:
        if args.only and not re.search(args.only, h.name):
            continue
        for cfg in h.configs_for(args.tier):
            if args.cfg and not re.search(args.cfg, json.dumps(cfg)):
                continue
            jobs.append((pid, h.name, cfg, args.tier))
    rnd = random.Random(seed)
    order = list(range(len(jobs)))
    rnd.shuffle(order)
    jobs = [jobs[i] for i in order]

    def limit_of(job):
        h = harness_by_name(mod, job[1])
        return 3 * (h.wall_s if args.tier == "quick" else h.thorough_wall_s) + 90

    results = run_parallel(jobs, sym_worker, args.jobs, limit_of)
    for j, r in zip(jobs, results):
        r.setdefault("harness", j[1])
        r.setdefault("config", j[2])

    if args.verbose:
        for r in sorted(results, key=lambda r: -r.get("wall_s", 0)):
            print("  ", r["harness"], json.dumps(r["config"]), "status", r.get("status"), "paths", r.get("paths"), "oblig", r.get("obligations"), "q", r.get("queries"), "solver_s", r.get("solver_s"), "wall", r.get("wall_s"), "exh", r.get("exhaustive"))
    # ---- cross-solver re-check of a sample of discharged obligations ----------
    xs = cross_check(pid, [e for r in results for e in r.get("exported", [])], rnd, 24 if args.tier == "quick" else 120, args.jobs)
    # ---- replay phase --------------------------------------------------------
    items = []
    max_path_replays = 40 if args.tier == "quick" else 400
    for r in results:
        for c in r.get("candidates", []):
            items.append({"kind": "cex", "harness": r["harness"], "config": r["config"], "inputs": c["inputs"], "inputs_alt": c.get("inputs_alt"), "label": c["label"], "hint": c.get("finding_hint"), "trace": c.get("trace")})
        recs = r.get("path_records", [])
        if len(recs) > max_path_replays:
            recs = rnd.sample(recs, max_path_replays)
        for p in recs:
            items.append({"kind": "path", "harness": r["harness"], "config": r["config"], "inputs": p["inputs"], "inputs_alt": p.get("inputs_alt"), "obs": p["obs"], "uf": p.get("uf", False)})
    rep = run_replays(pid, items, args.jobs) if items else []

    violations = []
    known_seen = {}
    unreproduced = []
    replay_ok = 0
    replay_mismatch = []
    replay_skipped = 0
    replay_uf_skipped = 0
    for it, rr in zip(items, rep):
        if it["kind"] == "cex":
            reproduced = rr["status"] == "ok" and any(f["label"] == it["label"] for f in rr["failed"])
            if not reproduced:
                unreproduced.append({"harness": it["harness"], "config": it["config"], "label": it["label"], "inputs": it["inputs"], "replay": rr})
                continue
            if rr.get("used_alt"):
                it = dict(it, inputs=it["inputs_alt"], inputs_alt=None)
            k = classify(pid, it["harness"], it["config"], it["label"], rr.get("inputs", it["inputs"]), known)
            if k is not None:
                known_seen.setdefault(k["id"], {"finding": k, "example": it})
            else:
                violations.append(it)
        else:
            if rr["status"] != "ok":
                if rr["status"].startswith("precondition"):
                    replay_skipped += 1
                else:
                    replay_mismatch.append({"item": it, "replay": rr})
                continue
            if it.get("uf") and not rr["failed"] and not rr.get("obs_agree", True):
                # the path condition involves uninterpreted exp2/log2/sqrt/Phi: the solver's
                # model of those functions need not be realisable in float arithmetic, so the
                # concrete run may legitimately take another path (DESIGN.md 2.6)
                replay_uf_skipped += 1
            elif rr["failed"] or not rr.get("obs_agree", True):
                # a path whose symbolic claims were all discharged must not fail concretely,
                # unless this path is the one a candidate came from
                replay_mismatch.append({"item": {k: it.get(k) for k in ("harness", "config", "inputs", "inputs_alt")}, "replay": rr})
            else:
                replay_ok += 1

    # a path replay may legitimately fail a claim when a candidate exists on that
    # path (the candidate is then reported through the cex route); filter those
    cand_labels = {(it["harness"], json.dumps(it["config"], sort_keys=True), it["label"]) for it in items if it["kind"] == "cex"}
    real_mismatch = []
    for m in replay_mismatch:
        it = m["item"]
        fl = m["replay"].get("failed", [])
        key_cfg = json.dumps(it["config"], sort_keys=True)
        if fl and m["replay"].get("obs_agree", True) and all((it["harness"], key_cfg, f["label"]) in cand_labels for f in fl):
            replay_ok += 1
            continue
        # The real code fails a claim on a concrete input that the solver generated for a path whose
        # claims it had discharged over the reals: the failing run is a fact about the real code
        # (float64 behaviour the real-arithmetic encoding cannot see, A1) -- it is reported as a
        # violation with that input, not as an engine/real-code disagreement.
        rr = m["replay"]
        if fl and rr.get("status") == "ok":
            for f in fl:
                if (it["harness"], key_cfg, f["label"]) in cand_labels:
                    continue
                cand = {
                    "kind": "cex",
                    "harness": it["harness"],
                    "config": it["config"],
                    "inputs": (it.get("inputs_alt") if rr.get("used_alt") else it["inputs"]),
                    "inputs_alt": None,
                    "label": f["label"],
                    "info": f.get("info"),
                    "found_by": "replay of a solver-generated path model on the real code: the solver discharged this claim over the reals on that path, the real float64 run fails it",
                    "replay": {k: rr.get(k) for k in ("inputs", "failed", "obs_got", "obs_pred")},
                }
                k = classify(pid, cand["harness"], cand["config"], cand["label"], rr.get("inputs", cand["inputs"]), known)
                if k is not None:
                    known_seen.setdefault(k["id"], {"finding": k, "example": cand})
                else:
                    violations.append(cand)
            continue
        real_mismatch.append(m)

    # ---- verdict -----------------------------------------------------------------
    problems = []
    for r in results:
        if r.get("status") != "ok":
            problems.append(f"{r['harness']} {r['config']}: {r.get('status')}: {str(r.get('error'))[-600:]}")
            continue
        if not r["exhaustive"]:
            problems.append(f"{r['harness']} {r['config']}: not exhaustive: {r['aborted'][:2]}")
        if r["n_inconclusive"]:
            problems.append(f"{r['harness']} {r['config']}: {r['n_inconclusive']} inconclusive obligations: {r['inconclusive'][:1]}")
    # coverage witnesses per harness (over all its configs)
    covers_seen = {}
    for r in results:
        covers_seen.setdefault(r["harness"], set()).update(r.get("covers", []))
    for h in mod.HARNESSES:
        if h.name in covers_seen:
            cfgs = h.configs_for(args.tier)
            missing = [c for c in h.covers if c not in covers_seen[h.name]]
            if missing and cfgs:
                problems.append(f"{h.name}: coverage witnesses never reached: {missing}")
    for r in results:
        if r.get("status") == "ok" and r["obligations"] == 0 and r["paths"] - r["pruned"] > 0:
            problems.append(f"{r['harness']} {r['config']}: no claim reached (vacuous)")
    obl_by_h = {}
    for r in results:
        obl_by_h[r["harness"]] = obl_by_h.get(r["harness"], 0) + r.get("obligations", 0)
    for hn, n in obl_by_h.items():
        if n == 0:
            problems.append(f"{hn}: no obligation in any configuration (vacuous harness)")
    for dg in xs.get("disagreements", [])[:5]:
        problems.append(f"cross-solver disagreement: {dg['solver']} answers sat on an obligation z3 discharged: {dg['label']}")
    for u in unreproduced:
        problems.append(f"counterexample did not reproduce on the real code: {u['harness']} {u['config']} {u['label']} {u['inputs']} -> {str(u['replay'])[:300]}")
    for m in real_mismatch[:5]:
        rp = m.get("replay", {})
        problems.append(f"replay mismatch (engine vs real code): pred={json.dumps(rp.get('obs_pred'))[:300]} got={json.dumps(rp.get('obs_got'))[:300]} failed={json.dumps(rp.get('failed'))[:200]} {json.dumps(m)[:700]}")

    viol_files = []
    seen_v = set()
    per_group = {}
    for v in violations:
        g = (v["harness"], v["label"])
        per_group[g] = per_group.get(g, 0) + 1
        if per_group[g] > 2:
            continue
        path = cex_path(pid, v)
        if path in seen_v:
            continue
        seen_v.add(path)
        with open(path, "w") as fh:
            json.dump(v, fh, indent=1)
        viol_files.append(path)

    for fid, ks in sorted(known_seen.items()):
        print(f"KNOWN-FINDING: property={pid} {fid}: {ks['finding']['what']} (e.g. {ks['example']['harness']} {json.dumps(ks['example']['inputs'])[:200]})")
    for path in viol_files[:20]:
        with open(path) as fh:
            v = json.load(fh)
        print(f"VIOLATION property={pid} replay={path}")
        print(f"  harness={v['harness']} config={json.dumps(v['config'])} claim={v['label']} inputs={json.dumps(v['inputs'])[:400]}")
    for p in problems[:30]:
        print("INCONCLUSIVE:", p[:1500])

    tot = lambda k: sum(r.get(k, 0) for r in results if isinstance(r.get(k, 0), (int, float)))
    wall = time.time() - t_start
    if not args.no_evidence and not args.only and not args.cfg:
        os.makedirs(EVID, exist_ok=True)
        samples = []
        for r in results:
            for s in r.get("samples", [])[:2]:
                s = dict(s)
                s["harness"] = r["harness"]
                s["config"] = r["config"]
                samples.append(s)
            if len(samples) >= 8:
                break
        if not samples:
            samples = [{"harness": r["harness"], "config": r["config"], "paths": r.get("paths")} for r in results[:3]]
        hsum = []
        for r in results:
            hsum.append({k: r.get(k) for k in ("harness", "config", "status", "exhaustive", "paths", "pruned", "branch_points", "queries", "solver_s", "obligations", "discharged", "n_aborted", "n_inconclusive", "covers", "wall_s")})
        from . import loader as _l

        ev = {
            "property_id": pid,
            "tier": args.tier,
            "seed": seed,
            "level": "model_checking",
            "coverage": {
                "states": max(1, tot("paths")) if results else 0,
                "transitions": max(1, tot("branch_points")) if results else 0,
                "traces_validated_against_impl": replay_ok,
                "samples": samples[:8],
                "exhaustive": all(r.get("exhaustive") for r in results) and not problems,
                "obligations": tot("obligations"),
                "discharged": tot("discharged"),
                "queries": tot("queries"),
                "solver_s": round(tot("solver_s"), 2),
                "solver_retries": tot("solver_retries"),
                "solver_portfolio_unsat": tot("solver_portfolio"),
                "configs": len(results),
                "distinct_nontrivial": sum(len(v) for v in covers_seen.values()),
                "rule": "states = feasible paths of the real code enumerated by the solver within the bounds; transitions = two-sided solver-decided branch points; distinct_nontrivial = coverage-witness labels reached (clauses of the oracle that some explored path exercises)",
                "functions_encoded": getattr(mod, "FUNCTIONS", []),
                "files_compiled_from_repo": sorted(set(os.path.relpath(p, _l.repo_root()) for p in _l.ENCODED_FILES))[:80],
                "bounds": getattr(mod, "BOUNDS", {}),
                "not_covered": getattr(mod, "NOT_COVERED", []),
                "stubs": getattr(mod, "STUBS", []),
                "harnesses": hsum,
                "known_findings_seen": sorted(known_seen),
                "cross_solver": {k: v for k, v in xs.items() if k != "disagreements"},
                "cross_solver_disagreements": len(xs.get("disagreements", [])),
                "replay_skipped_precondition": replay_skipped,
                "replay_skipped_uf_model_not_realisable": replay_uf_skipped,
                "inconclusive": problems[:20],
            },
            "assumptions": getattr(mod, "ASSUMPTIONS", [])
            + [
                "A1 floats are treated as real numbers (every replayed path is re-run in float64 on the untouched code)",
                "A2 int64 does not overflow within the stated coordinate bounds",
                "A3 nothing is claimed beyond the stated bounds (rows, lengths, pools)",
                "A4 pandas/numpy object-dtype semantics equal int64/float64 semantics for the operations used (validated by per-path replay)",
            ],
            "wall_s": round(wall, 2),
            "violations": len(viol_files),
        }
        with open(os.path.join(EVID, f"{pid}.json"), "w") as fh:
            json.dump(ev, fh, indent=1, default=str)

    print(
        f"{pid} tier={args.tier}: configs={len(results)} paths={tot('paths')} branch_points={tot('branch_points')} "
        f"queries={tot('queries')} retries={tot('solver_retries')} solver_s={tot('solver_s'):.1f} obligations={tot('obligations')} discharged={tot('discharged')} "
        f"replays_ok={replay_ok} violations={len(viol_files)} known={len(known_seen)} problems={len(problems)} wall={wall:.1f}s"
    )
    if viol_files:
        return 1
    if problems:
        return 2
    return 0


if __name__ == "__main__":
    sys.exit(main())
