"""symx.replay -- concrete replays on the untouched real code.

Runs in its own interpreter: /repo (or $VERIF_REPO) is imported with the
ordinary import machinery -- no AST rewrite, no facades, real numpy/pandas.
Each item is one input assignment (a solver model) for one harness/config; the
harness is executed in concrete mode, its claims are evaluated on plain values
and its observations are compared with the values the symbolic run predicted.
"""
from __future__ import annotations

import json
import math
import sys
import traceback

sys.set_int_max_str_digits(0)
from fractions import Fraction


def _num(v):
    if isinstance(v, bool):
        return v
    if isinstance(v, (int, float)):
        return v
    if isinstance(v, str):
        if v == "nan":
            return float("nan")
        if v in ("inf", "-inf"):
            return float(v)
        try:
            return Fraction(v)
        except (ValueError, ZeroDivisionError):
            return v
    return v


def agree(a, b, tol=1e-6):
    """a: predicted (json from the symbolic run), b: observed (json, concrete)."""
    if isinstance(a, dict) and a.get("uf"):
        return True
    if isinstance(a, (list, tuple)) and isinstance(b, (list, tuple)):
        return len(a) == len(b) and all(agree(x, y, tol) for x, y in zip(a, b))
    if isinstance(a, dict) and isinstance(b, dict):
        return a.keys() == b.keys() and all(agree(a[k], b[k], tol) for k in a)
    x, y = _num(a), _num(b)
    if isinstance(x, str) or isinstance(y, str) or x is None or y is None:
        return x == y
    if isinstance(x, bool) or isinstance(y, bool):
        return bool(x) == bool(y)
    fx, fy = float(x), float(y)
    if fx != fx or fy != fy:
        return fx != fx and fy != fy
    if isinstance(x, int) and isinstance(y, int):
        return x == y
    return abs(fx - fy) <= tol * (1.0 + max(abs(fx), abs(fy)))


def one(mod, it):
    """Replay with the model's inputs; when that does not reproduce / agree and
    a repaired assignment exists (exp2 arguments recomputed from the model's
    function values), try that one too."""
    r = _one(mod, it, it["inputs"])
    if it.get("inputs_alt"):
        if it.get("kind") == "cex":
            good = r["status"] == "ok" and any(f["label"] == it.get("label") for f in r["failed"])
        else:
            good = r["status"] == "ok" and not r["failed"] and r.get("obs_agree", True)
        if not good:
            r2 = _one(mod, it, it["inputs_alt"])
            if it.get("kind") == "cex":
                good2 = r2["status"] == "ok" and any(f["label"] == it.get("label") for f in r2["failed"])
            else:
                good2 = r2["status"] == "ok" and not r2["failed"] and r2.get("obs_agree", True)
            if good2 or r["status"] != "ok":
                r2["used_alt"] = True
                return r2
    return r


def _one(mod, it, inputs):
    from . import core

    h = None
    for hh in mod.HARNESSES:
        if hh.name == it["harness"]:
            h = hh
    try:
        ctx, status = core.run_concrete(h.fn, it["config"], inputs)
    except BaseException:
        return {"status": "exception", "error": traceback.format_exc()[-2500:], "failed": []}
    res = {"status": status, "failed": ctx.failed[:10], "n_claims": ctx.n_claims, "inputs": ctx.inputs}
    if it.get("obs") is not None and status == "ok":
        got = [[n, core._eval_obs(v, None)] for n, v in ctx.obs]
        pred = [[n, v] for n, v in it["obs"]]
        ok = agree(pred, got)
        res["obs_agree"] = ok
        if not ok:
            res["obs_pred"] = pred
            res["obs_got"] = got
    return res


def _chunk_worker(pid, items):
    import importlib

    mod = importlib.import_module(f"symx.props.{pid}")
    return [one(mod, it) for it in items]


def main():
    inp, outp = sys.argv[1], sys.argv[2]
    with open(inp) as fh:
        job = json.load(fh)
    from . import loader

    loader.install_plain()
    import logging

    logging.disable(logging.CRITICAL)  # keep the check's output readable; logging has no effect on results
    import importlib

    pid = job["property"]
    importlib.import_module(f"symx.props.{pid}")  # warm import in the parent
    items = job["items"]
    nproc = max(1, min(job.get("nproc", 8), len(items) // 8 or 1))
    if nproc == 1:
        results = _chunk_worker(pid, items)
    else:
        from .run import run_parallel

        chunks = [items[i::nproc] for i in range(nproc)]
        outs = run_parallel([(pid, c) for c in chunks], _chunk_worker, nproc, lambda j: 3000)
        results = [None] * len(items)
        for ci, out in enumerate(outs):
            if isinstance(out, dict):  # worker failure
                out = [{"status": "exception", "error": out.get("error"), "failed": []}] * len(chunks[ci])
            for k, r in enumerate(out):
                results[ci + k * nproc] = r
    with open(outp, "w") as fh:
        json.dump({"results": results}, fh, default=str)


if __name__ == "__main__":
    main()
