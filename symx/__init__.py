"""symx -- concolic symbolic execution of /repo's cnvlib/skgenome on top of the
real pandas/numpy, with z3 deciding every branch and every obligation.

See /verif/DESIGN.md section 2.
"""
