"""symx.loader -- import hook that compiles cnvlib.* / skgenome.* from the
*current* sources under $VERIF_REPO (default /repo) after a small, generic,
line-number-preserving AST rewrite (DESIGN.md 2.3).  Nothing is cached: every
process that installs the hook re-reads and re-compiles the files.
"""
from __future__ import annotations

import ast
import importlib.abc
import importlib.machinery
import importlib.util
import os
import sys

from . import rt

PACKAGES = ("cnvlib", "skgenome")
ENCODED_FILES = []  # files compiled through the hook in this process


def repo_root():
    return os.environ.get("VERIF_REPO", "/repo")


class _Rewriter(ast.NodeTransformer):
    BUILTINS = {"int": "int_", "float": "float_", "isinstance": "isinstance_"}

    def visit_Call(self, node):
        self.generic_visit(node)
        f = node.func
        if isinstance(f, ast.Name) and f.id in self.BUILTINS:
            node.func = ast.copy_location(
                ast.Attribute(value=ast.copy_location(ast.Name(id="__symx__", ctx=ast.Load()), f), attr=self.BUILTINS[f.id], ctx=ast.Load()),
                f,
            )
            return node
        if isinstance(f, ast.Attribute) and f.attr in rt.REWRITTEN_METHODS:
            # X.m(args) -> __symx__.call(X, "m", args)
            # leave calls on the numpy / pandas / math modules alone
            if isinstance(f.value, ast.Name) and f.value.id in ("np", "pd", "math", "stats", "numpy", "pandas"):
                return node
            new = ast.Call(
                func=ast.Attribute(value=ast.Name(id="__symx__", ctx=ast.Load()), attr="call", ctx=ast.Load()),
                args=[f.value, ast.Constant(value=f.attr)] + node.args,
                keywords=node.keywords,
            )
            return ast.fix_missing_locations(ast.copy_location(new, node))
        return node

    def visit_Import(self, node):
        out = [node]
        for al in node.names:
            if al.name in rt.FACADES:
                target = al.asname or al.name
                assign = ast.Assign(
                    targets=[ast.Name(id=target, ctx=ast.Store())],
                    value=ast.Attribute(value=ast.Name(id="__symx__", ctx=ast.Load()), attr=rt.FACADES[al.name], ctx=ast.Load()),
                )
                out.append(ast.fix_missing_locations(ast.copy_location(assign, node)))
        return out


def rewrite_source(source: str, filename: str):
    tree = ast.parse(source, filename)
    tree = _Rewriter().visit(tree)
    ast.fix_missing_locations(tree)
    return compile(tree, filename, "exec", dont_inherit=True)


class _Loader(importlib.abc.Loader):
    def __init__(self, fullname, path, is_pkg):
        self.fullname = fullname
        self.path = path
        self.is_pkg = is_pkg

    def create_module(self, spec):
        return None

    def exec_module(self, module):
        with open(self.path, "r", encoding="utf-8") as fh:
            src = fh.read()
        code = rewrite_source(src, self.path)
        module.__dict__["__symx__"] = rt
        ENCODED_FILES.append(self.path)
        exec(code, module.__dict__)


class _Finder(importlib.abc.MetaPathFinder):
    def find_spec(self, fullname, path, target=None):
        top = fullname.split(".")[0]
        if top not in PACKAGES:
            return None
        rel = fullname.replace(".", os.sep)
        root = repo_root()
        pkg_init = os.path.join(root, rel, "__init__.py")
        mod_file = os.path.join(root, rel + ".py")
        if os.path.isfile(pkg_init):
            loader = _Loader(fullname, pkg_init, True)
            spec = importlib.machinery.ModuleSpec(fullname, loader, origin=pkg_init, is_package=True)
            spec.submodule_search_locations = [os.path.join(root, rel)]
            spec.has_location = True
            return spec
        if os.path.isfile(mod_file):
            loader = _Loader(fullname, mod_file, False)
            spec = importlib.machinery.ModuleSpec(fullname, loader, origin=mod_file)
            spec.has_location = True
            return spec
        return None


_installed = False


def install():
    """Install the hook (symbolic workers)."""
    global _installed
    if _installed:
        return
    for name in list(sys.modules):
        if name.split(".")[0] in PACKAGES:
            raise RuntimeError(f"{name} imported before the symx hook was installed")
    sys.meta_path.insert(0, _Finder())
    sys.dont_write_bytecode = True
    rt.install_pandas_patches()
    rt.install_rolling_patch()
    rt.install_reduction_patches()
    rt.install_read_csv_patch()
    rt.install_assign_patch()
    rt.install_series_ctor_patch()
    # environment stub: logging is a no-op in symbolic workers (its %-formatting of
    # proxies would otherwise demand machine numbers); the replays log as usual
    import logging

    logging.disable(logging.CRITICAL)
    _installed = True


def install_plain():
    """Concrete replay workers: import the untouched real code from the repo
    root with the ordinary import machinery (no rewrite, no facades)."""
    root = repo_root()
    # a pip-installed/egg-linked copy must not shadow the tree under test
    sys.path.insert(0, root)
    sys.dont_write_bytecode = True
