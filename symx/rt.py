"""symx.rt -- the run-time namespace ``__symx__`` injected into every module of
the repository under test, plus the numpy / math facades.

Everything here falls through to the real builtin / numpy / pandas function
unless a proxy is involved, so the same rewritten module also runs concrete
data unchanged.
"""
from __future__ import annotations

import builtins
import math as _math
import numbers
from fractions import Fraction

import numpy as _np
import pandas as _pd
import z3

from . import core
from .core import Sym, SymBool, SymInt, SymReal, is_sym

_builtin_int = builtins.int
_builtin_float = builtins.float
_builtin_isinstance = builtins.isinstance


def _sym_mode():
    c = core.CUR
    return c is not None and c.mode == "sym"


# -- builtins ---------------------------------------------------------------


def int_(x=0, *a):
    if isinstance(x, SymInt):
        return x
    if isinstance(x, SymReal):
        return x.__trunc__()
    if isinstance(x, SymBool):
        return x._as_int()
    if isinstance(x, str) and _sym_mode() and not a:
        v = core.CUR.parse_int(x)
        if v is not None and isinstance(v, SymInt):
            return v
    return _builtin_int(x, *a)


def float_(x=0.0):
    if isinstance(x, SymReal):
        return x
    if isinstance(x, SymInt):
        return SymReal(z3.ToReal(x.t))
    if isinstance(x, SymBool):
        return SymReal(z3.If(x.t, z3.RealVal(1), z3.RealVal(0)))
    if isinstance(x, str) and _sym_mode():
        v = core.CUR.parse_int(x)
        if v is not None:
            return v if isinstance(v, SymReal) else SymReal(z3.ToReal(v.t))
    return _builtin_float(x)


_INT_TYPES = (int, _np.integer, numbers.Integral, numbers.Real, numbers.Number, _np.number)
_REAL_TYPES = (float, _np.floating, numbers.Real, numbers.Number, _np.number)
_BOOL_TYPES = (bool, _np.bool_)


def isinstance_(x, t):
    if _builtin_isinstance(x, Sym):
        ts = t if _builtin_isinstance(t, tuple) else (t,)
        flat = []
        for e in ts:
            if _builtin_isinstance(e, tuple):
                flat.extend(e)
            else:
                flat.append(e)
        for e in flat:
            if _builtin_isinstance(x, SymInt) and any(e is q for q in (int, _np.integer, _np.int_, _np.int64, numbers.Integral, numbers.Real, numbers.Number, _np.number)):
                return True
            if _builtin_isinstance(x, SymReal) and any(e is q for q in (float, _np.floating, _np.float64, numbers.Real, numbers.Number, _np.number)):
                return True
            if _builtin_isinstance(x, SymBool) and any(e is q for q in (bool, _np.bool_)):
                return True
            if _builtin_isinstance(e, type) and _builtin_isinstance(x, e):
                return True
        return False
    return _builtin_isinstance(x, t)


# -- helpers ------------------------------------------------------------------


def has_sym(a):
    if isinstance(a, Sym):
        return True
    if isinstance(a, _pd.Series):
        if a.dtype != object:
            return False
        a = a.values
    if isinstance(a, _pd.DataFrame):
        return any(has_sym(a[c]) for c in a.columns if a[c].dtype == object)
    if isinstance(a, _np.ndarray):
        if a.dtype != object:
            return False
        for e in a.ravel():
            if isinstance(e, Sym):
                return True
        return False
    if isinstance(a, (list, tuple)):
        return any(has_sym(e) for e in a)
    return False


def _is_nan(x):
    return isinstance(x, (float, _np.floating)) and x != x


def _elems(a):
    if isinstance(a, _pd.Series):
        return list(a.values)
    if isinstance(a, _np.ndarray):
        return list(a.ravel())
    return list(a)


def _obj_array(xs, shape=None):
    out = _np.empty(len(xs), dtype=object)
    for i, x in enumerate(xs):
        out[i] = x
    if shape is not None:
        out = out.reshape(shape)
    return out


def _like(template, xs):
    """Re-wrap a flat list like `template` (Series keeps its index)."""
    if isinstance(template, _pd.Series):
        return _pd.Series(_obj_array(xs), index=template.index, name=template.name, dtype=object)
    if isinstance(template, _np.ndarray):
        return _obj_array(xs, template.shape)
    return _obj_array(xs)


def _map(a, f):
    if isinstance(a, (_pd.Series, _np.ndarray)):
        return _like(a, [f(e) for e in _elems(a)])
    if isinstance(a, (list, tuple)):
        return _obj_array([f(e) for e in a])
    return f(a)


def to_float_elem(e):
    if isinstance(e, Sym):
        return float_(e)
    if e is None:
        return float("nan")
    return _builtin_float(e)


def to_int_elem(e):
    if isinstance(e, Sym):
        return int_(e)
    return _builtin_int(e)


_NARROW_INTS = {"int32": (32, True), "int16": (16, True), "int8": (8, True), "uint32": (32, False), "uint16": (16, False), "uint8": (8, False)}


def narrow_int_elem(e, bits, signed):
    """Cast to a fixed-width integer as numpy does on this platform: in range, truncation towards
    zero; out of range, an integer source wraps modulo 2**bits and a float source gives the most
    negative value (x86 cvttsd2si; what numpy 2 on this image returns)."""
    lo = -(1 << (bits - 1)) if signed else 0
    hi = lo + (1 << bits) - 1
    if not isinstance(e, Sym):
        with _np.errstate(all="ignore"):
            return _builtin_int(_np.asarray(e).astype(f"{'' if signed else 'u'}int{bits}"))
    v = int_(e)
    ok = core.And(v >= lo, v <= hi)
    if isinstance(e, SymReal):
        return core.If(ok, v, lo if signed else 0)
    return core.If(ok, v, (v - lo) % (1 << bits) + lo)


def _np_log2_elem(e):
    """numpy's log2 on one element: -inf at 0 and nan below (with a warning numpy callers silence),
    the uninterpreted log2 on positive values.  The sign is a solver-decided branch."""
    if not isinstance(e, Sym):
        with _np.errstate(all="ignore"):
            return _np.log2(e)
    if bool(e > 0):
        return core.log2(e)
    if bool(e == 0):
        return float("-inf")
    return float("nan")


def round_elem(e, decimals=0):
    if isinstance(e, SymReal):
        r = e.__round__(decimals) if decimals else e.__round__()
        return float_(r)
    if isinstance(e, SymInt):
        return e
    return _np.round(e, decimals)


def sym_sorted(xs):
    """Sort a list of numbers/proxies; comparisons fork.  NaN last."""
    nans = [x for x in xs if _is_nan(x)]
    rest = [x for x in xs if not _is_nan(x)]
    # insertion sort: deterministic comparison sequence
    out = []
    for x in rest:
        i = len(out)
        while i > 0 and bool(x < out[i - 1]):
            i -= 1
        out.insert(i, x)
    return out + nans


def sym_mean(xs):
    xs = list(xs)
    if not xs:
        return float("nan")
    return core.Sum(xs) / len(xs)


def sym_median(xs, skipna=False):
    xs = list(xs)
    if skipna:
        xs = [x for x in xs if not _is_nan(x)]
    if not xs:
        return float("nan")
    if any(_is_nan(x) for x in xs):
        return float("nan")
    s = sym_sorted(xs)
    n = len(s)
    if n % 2:
        return s[n // 2] if isinstance(s[n // 2], Sym) else _builtin_float(s[n // 2])
    return (s[n // 2 - 1] + s[n // 2]) / 2


def sym_percentile(xs, q):
    s = sym_sorted(list(xs))
    n = len(s)
    if n == 0:
        return float("nan")
    pos = Fraction(q) / 100 * (n - 1)
    lo = _math.floor(pos)
    hi = min(lo + 1, n - 1)
    frac = pos - lo
    if frac == 0:
        return s[lo] * 1.0 if not isinstance(s[lo], Sym) else float_(s[lo])
    # numpy's linear interpolation: a + (b - a) * t
    return s[lo] + (s[hi] - s[lo]) * frac


def sym_var(xs, ddof=0):
    xs = list(xs)
    m = sym_mean(xs)
    return core.Sum([(x - m) * (x - m) for x in xs]) / (len(xs) - ddof)


# -- method-call dispatcher -----------------------------------------------------


def _m_astype(obj, dtype=None, *a, **k):
    if isinstance(obj, _pd.DataFrame):
        if isinstance(dtype, dict):
            out = obj.copy()
            for col, dt in dtype.items():
                out[col] = _m_astype(out[col], dt)
            return out
        return obj.astype(dtype, *a, **k)
    if not has_sym(obj):
        return obj.astype(dtype, *a, **k)
    if dtype in (int, "int", _np.int_, _np.int64, "int64"):
        return _map(obj, to_int_elem)
    if dtype in (float, "float", _np.float64, _np.float_, "float64"):
        return _map(obj, to_float_elem)
    narrow = _NARROW_INTS.get(dtype if isinstance(dtype, str) else getattr(dtype, "__name__", None))
    if narrow is not None:
        return _map(obj, lambda e: narrow_int_elem(e, *narrow))
    if dtype in (object, "object", "O"):
        return obj.astype(object)
    if dtype in (str, "str", "string"):
        r = _map(obj, str)
        return r
    if dtype in (bool, _np.bool_, "bool"):
        return _map(obj, lambda e: bool(e)).astype(bool)
    raise core.PathAbort(f"astype({dtype!r}) on symbolic data")


def _m_round(obj, decimals=0, *a, **k):
    if isinstance(obj, Sym):
        return round_elem(obj, decimals)
    if not has_sym(obj):
        if getattr(obj, "dtype", None) == object:
            # an object array that (on this path) holds plain numbers only
            return _map(obj, lambda e: round_elem(e, decimals))
        return obj.round(decimals, *a, **k)
    return _map(obj, lambda e: round_elem(e, decimals))


def _series_reduce(name):
    def red(obj, *a, **k):
        if not has_sym(obj):
            if getattr(obj, "dtype", None) == object:
                try:
                    obj = obj.astype(float)
                except (TypeError, ValueError):
                    pass
            return getattr(obj, name)(*a, **k)
        xs = _elems(obj)
        skipna = k.get("skipna", True) if isinstance(obj, _pd.Series) else False
        if skipna:
            xs = [x for x in xs if not _is_nan(x) and x is not None]
        if name == "mean":
            return sym_mean(xs)
        if name == "median":
            return sym_median(xs)
        if name == "sum":
            return core.Sum(xs)
        if name == "std":
            ddof = k.get("ddof", 1 if isinstance(obj, _pd.Series) else 0)
            return core.sqrt(sym_var(xs, ddof))
        if name == "var":
            ddof = k.get("ddof", 1 if isinstance(obj, _pd.Series) else 0)
            return sym_var(xs, ddof)
        if name == "max":
            s = sym_sorted(xs)
            return s[-1]
        if name == "min":
            s = sym_sorted(xs)
            return s[0]
        raise core.PathAbort(name)

    return red


def _m_quantile(obj, q=0.5, *a, **k):
    if not has_sym(obj):
        if getattr(obj, "dtype", None) == object:
            obj = obj.astype(float)
        return obj.quantile(q, *a, **k)
    xs = [x for x in _elems(obj) if not _is_nan(x)]
    return sym_percentile(xs, Fraction(q) * 100)


_MODELS = {
    "astype": _m_astype,
    "round": _m_round,
    "mean": _series_reduce("mean"),
    "median": _series_reduce("median"),
    "std": _series_reduce("std"),
    "var": _series_reduce("var"),
    "quantile": _m_quantile,
}

REWRITTEN_METHODS = frozenset(_MODELS)


def call(obj, name, *a, **k):
    if _sym_mode():
        if isinstance(obj, (_np.ndarray, _pd.Series, _pd.DataFrame, Sym)):
            return _MODELS[name](obj, *a, **k)
    return getattr(obj, name)(*a, **k)


# -- numpy facade -----------------------------------------------------------------


def _float_dtype(dtype):
    return dtype is None or dtype in (float, _np.float64, _np.float_, "float", "float64", "f8", _np.double)


class _NpFacade:
    """Stands in for the module global ``np``.  Attribute access falls through
    to numpy; the functions below have a proxy-aware path."""

    def __getattr__(self, name):
        return getattr(_np, name)

    # allocation: float arrays become object arrays while a symbolic run is on
    def zeros(self, shape, dtype=None, *a, **k):
        if _sym_mode() and _float_dtype(dtype):
            out = _np.empty(shape, dtype=object)
            out.fill(0.0)
            return out
        return _np.zeros(shape, *(a if dtype is None else (dtype,) + a), **k)

    def ones(self, shape, dtype=None, *a, **k):
        if _sym_mode() and _float_dtype(dtype):
            out = _np.empty(shape, dtype=object)
            out.fill(1.0)
            return out
        return _np.ones(shape, *(a if dtype is None else (dtype,) + a), **k)

    def empty(self, shape, dtype=None, *a, **k):
        if _sym_mode() and _float_dtype(dtype):
            out = _np.empty(shape, dtype=object)
            out.fill(0.0)
            return out
        return _np.empty(shape, *(a if dtype is None else (dtype,) + a), **k)

    def full(self, shape, fill_value, dtype=None, *a, **k):
        if _sym_mode() and (isinstance(fill_value, (float, Sym))) and _float_dtype(dtype):
            out = _np.empty(shape, dtype=object)
            out.fill(fill_value)
            return out
        return _np.full(shape, fill_value, dtype, *a, **k)

    def zeros_like(self, a, dtype=None, *aa, **k):
        if _sym_mode() and ((dtype is None and getattr(a, "dtype", None) in (object, _np.float64)) or (dtype is not None and _float_dtype(dtype))):
            out = _np.empty(_np.shape(a), dtype=object)
            out.fill(0.0)
            return out
        return _np.zeros_like(a, dtype, *aa, **k)

    def repeat(self, a, repeats, *aa, **k):
        if _sym_mode() and (isinstance(a, (float, _np.floating, Sym))):
            n = repeats if isinstance(repeats, int) else _builtin_int(repeats.__index__())
            out = _np.empty(n, dtype=object)
            out.fill(a)
            return out
        return _np.repeat(a, repeats, *aa, **k)

    def _arr(self, fn, a, dtype=None, *aa, **k):
        if _sym_mode():
            if isinstance(a, Sym):
                out = _np.empty((), dtype=object)
                out[()] = a
                return out
            if isinstance(a, (_pd.Series,)) and a.dtype == object and has_sym(a):
                a = a.values
            if isinstance(a, _np.ndarray) and a.dtype == object and has_sym(a):
                if dtype is None or dtype is object:
                    return a if fn is _np.asarray else a.copy()
                if _float_dtype(dtype):
                    return _map(a, to_float_elem)
                if dtype in (int, _np.int_, _np.int64):
                    return _map(a, to_int_elem)
                raise core.PathAbort(f"np.array(dtype={dtype}) on symbolic data")
            if isinstance(a, (list, tuple)) and has_sym(a):
                flat_ok = all(not isinstance(e, (list, tuple, _np.ndarray)) for e in a)
                if flat_ok:
                    out = _obj_array(list(a))
                else:
                    out = _np.array([list(_elems(e)) for e in a], dtype=object)
                if dtype is not None and _float_dtype(dtype):
                    return _map(out, to_float_elem)
                if dtype in (int, _np.int_, _np.int64):
                    return _map(out, to_int_elem)
                return out
        if dtype is None:
            return fn(a, *aa, **k)
        return fn(a, dtype, *aa, **k)

    def asarray(self, a, dtype=None, *aa, **k):
        return self._arr(_np.asarray, a, dtype, *aa, **k)

    def array(self, a, dtype=None, *aa, **k):
        return self._arr(_np.array, a, dtype, *aa, **k)

    def asfarray(self, a, *aa, **k):
        return self._arr(_np.asarray, a, float)

    def fromiter(self, it, dtype, count=-1, **k):
        if _sym_mode():
            xs = list(it)
            if has_sym(xs) or _float_dtype(dtype):
                if _float_dtype(dtype):
                    return _obj_array([to_float_elem(x) for x in xs])
                return _obj_array(xs)
            return _np.fromiter(xs, dtype, len(xs))
        return _np.fromiter(it, dtype, count, **k)

    # predicates
    def isnan(self, x, *a, **k):
        if isinstance(x, Sym):
            return False
        if isinstance(x, _pd.Series) and x.dtype == object:
            return _pd.Series(_np.array([_is_nan(e) for e in x.values], dtype=bool), index=x.index)
        if isinstance(x, _np.ndarray) and x.dtype == object:
            return _np.array([_is_nan(e) for e in x.ravel()], dtype=bool).reshape(x.shape)
        return _np.isnan(x, *a, **k)

    def isfinite(self, x, *a, **k):
        if isinstance(x, Sym):
            return True
        if isinstance(x, _pd.Series) and x.dtype == object:
            x = x.values
        if isinstance(x, _np.ndarray) and x.dtype == object:
            return _np.array(
                [True if isinstance(e, Sym) else bool(_np.isfinite(e)) for e in x.ravel()], dtype=bool
            ).reshape(x.shape)
        return _np.isfinite(x, *a, **k)

    # element-wise math
    def _ew(self, x, fsym, freal):
        if isinstance(x, Sym):
            return fsym(x)
        if isinstance(x, (_pd.Series, _np.ndarray)) and x.dtype == object:
            return _map(x, lambda e: fsym(e) if isinstance(e, Sym) else (fsym(e) if (_sym_mode() and core.CUR.keep_uf and fsym in (core.log2, core.exp2)) else freal(e)))
        if _sym_mode() and core.CUR.keep_uf and fsym in (core.log2, core.exp2):
            if isinstance(x, (float, int, _np.floating, _np.integer)):
                return fsym(x)
        return freal(x)

    def log2(self, x, *a, **k):
        return self._ew(x, _np_log2_elem, _np.log2)

    def exp2(self, x, *a, **k):
        return self._ew(x, core.exp2, _np.exp2)

    def sqrt(self, x, *a, **k):
        return self._ew(x, core.sqrt, _np.sqrt)

    def ceil(self, x, *a, **k):
        return self._ew(x, lambda e: float_(e.__ceil__()), _np.ceil)

    def floor(self, x, *a, **k):
        return self._ew(x, lambda e: float_(e.__floor__()), _np.floor)

    def abs(self, x, *a, **k):
        return self._ew(x, lambda e: e.__abs__(), _np.abs)

    absolute = abs

    def sign(self, x, *a, **k):
        return self._ew(x, lambda e: core.If(e > 0, 1, core.If(e < 0, -1, 0)), _np.sign)

    def round(self, x, decimals=0, *a, **k):
        if has_sym(x):
            return _map(x, lambda e: round_elem(e, decimals))
        return _np.round(x, decimals, *a, **k)

    rint = round

    def _ew2(self, a, b, f, freal):
        if not (has_sym(a) or has_sym(b)):
            return freal(a, b)
        a_arr = isinstance(a, (_pd.Series, _np.ndarray))
        b_arr = isinstance(b, (_pd.Series, _np.ndarray))
        if a_arr and b_arr:
            ea, eb = _elems(a), _elems(b)
            if len(ea) != len(eb):
                if len(ea) == 1:
                    ea = ea * len(eb)
                elif len(eb) == 1:
                    eb = eb * len(ea)
                else:
                    raise core.PathAbort("broadcast")
            return _like(a if len(_elems(a)) >= len(_elems(b)) else b, [f(x, y) for x, y in zip(ea, eb)])
        if a_arr:
            return _like(a, [f(x, b) for x in _elems(a)])
        if b_arr:
            return _like(b, [f(a, y) for y in _elems(b)])
        return f(a, b)

    def maximum(self, a, b, *aa, **k):
        def f(x, y):
            if _is_nan(x) or _is_nan(y):
                return float("nan")
            return core.If(x >= y, x, y)

        return self._ew2(a, b, f, _np.maximum)

    def minimum(self, a, b, *aa, **k):
        if not aa and not k and (has_sym(a) or has_sym(b)):

            def f(x, y):
                if _is_nan(x) or _is_nan(y):
                    return float("nan")
                return core.If(x <= y, x, y)

            return self._ew2(a, b, f, _np.minimum)
        return _np.minimum(a, b, *aa, **k)

    def mod(self, a, b, *aa, **k):
        return self._ew2(a, b, lambda x, y: x % y, _np.mod)

    def any(self, a, *aa, **k):
        if (isinstance(a, Sym) or has_sym(a)) and not aa and not k:
            # each element's truth is a solver-decided branch (short-circuit order as written)
            for e in ([a] if isinstance(a, Sym) else _elems(a)):
                if bool(e):
                    return True
            return False
        return _np.any(a, *aa, **k)

    def all(self, a, *aa, **k):
        if (isinstance(a, Sym) or has_sym(a)) and not aa and not k:
            for e in ([a] if isinstance(a, Sym) else _elems(a)):
                if not bool(e):
                    return False
            return True
        return _np.all(a, *aa, **k)

    def where(self, cond, *args):
        if not args:
            return _np.where(cond)
        a, b = args
        if has_sym(cond):
            cs = _elems(cond)

            def pick(v, i):
                return _elems(v)[i] if isinstance(v, (_pd.Series, _np.ndarray, list)) else v

            return _obj_array([core.If(c, pick(a, i), pick(b, i)) for i, c in enumerate(cs)])
        if has_sym(a) or has_sym(b):
            cs = _elems(_np.asarray(cond))

            def pick(v, i):
                return _elems(v)[i] if isinstance(v, (_pd.Series, _np.ndarray, list)) else v

            return _obj_array([pick(a, i) if c else pick(b, i) for i, c in enumerate(cs)])
        return _np.where(cond, a, b)

    # reductions
    def mean(self, a, *aa, **k):
        if has_sym(a) and not aa and not k:
            return sym_mean(_elems(a))
        return _np.mean(a, *aa, **k)

    def nanmean(self, a, *aa, **k):
        if has_sym(a) and not aa and not k:
            return sym_mean([x for x in _elems(a) if not _is_nan(x)])
        return _np.nanmean(a, *aa, **k)

    def median(self, a, *aa, **k):
        if has_sym(a) and not aa and not k:
            return sym_median(_elems(a))
        if isinstance(a, (_np.ndarray, _pd.Series)) and a.dtype == object and not aa and not k:
            return _np.median(_np.asarray(a, dtype=float))
        return _np.median(a, *aa, **k)

    def nanmedian(self, a, *aa, **k):
        if has_sym(a) and not aa and not k:
            return sym_median(_elems(a), skipna=True)
        if isinstance(a, (_np.ndarray, _pd.Series)) and a.dtype == object and not aa and not k:
            return _np.nanmedian(_np.asarray(a, dtype=float))
        return _np.nanmedian(a, *aa, **k)

    def std(self, a, *aa, **k):
        if has_sym(a):
            return core.sqrt(sym_var(_elems(a), k.get("ddof", 0)))
        return _np.std(a, *aa, **k)

    def var(self, a, *aa, **k):
        if has_sym(a):
            return sym_var(_elems(a), k.get("ddof", 0))
        return _np.var(a, *aa, **k)

    def sum(self, a, *aa, **k):
        if has_sym(a) and not aa and not k:
            return core.Sum(_elems(a))
        return _np.sum(a, *aa, **k)

    def average(self, a, axis=None, weights=None, **k):
        if has_sym(a) or has_sym(weights):
            arr2 = a if isinstance(a, _np.ndarray) else None
            if arr2 is not None and arr2.ndim == 2 and axis in (0, 1, -1):
                rows = arr2 if axis in (1, -1) else arr2.T
                return _obj_array([self.average(r, weights=weights) for r in rows])
            xs = _elems(a)
            if weights is None:
                return sym_mean(xs)
            ws = _elems(weights)
            if len(ws) != len(xs):
                raise TypeError("Length of weights not compatible with specified axis.")
            tot = core.Sum(ws)
            if tot == 0:
                raise ZeroDivisionError("Weights sum to zero, can't be normalized")
            return core.Sum([x * w for x, w in zip(xs, ws)]) / tot
        return _np.average(a, axis=axis, weights=weights, **k)

    def percentile(self, a, q, *aa, **k):
        if has_sym(a):
            xs = _elems(a)
            if isinstance(q, (list, tuple, _np.ndarray)):
                return _obj_array([sym_percentile(xs, Fraction(float(e))) for e in q])
            return sym_percentile(xs, Fraction(float(q)))
        if isinstance(a, (_np.ndarray, _pd.Series)) and a.dtype == object:
            a = _np.asarray(a, dtype=float)
        return _np.percentile(a, q, *aa, **k)

    def sort(self, a, *aa, **k):
        if has_sym(a):
            return _obj_array(sym_sorted(_elems(a)))
        return _np.sort(a, *aa, **k)

    def convolve(self, a, v, mode="full"):
        if has_sym(a) or has_sym(v):
            ea, ev = _elems(a), _elems(v)
            n, m = len(ea), len(ev)
            full = []
            for kk in range(n + m - 1):
                s = 0
                for i in range(max(0, kk - m + 1), min(n, kk + 1)):
                    s = s + ea[i] * ev[kk - i]
                full.append(s)
            if mode == "full":
                return _obj_array(full)
            if mode == "same":
                big = max(n, m)
                st = (len(full) - big) // 2
                return _obj_array(full[st : st + big])
            if mode == "valid":
                big, small = max(n, m), min(n, m)
                return _obj_array(full[small - 1 : big])
        return _np.convolve(a, v, mode)

    def allclose(self, a, b, *aa, **k):
        if has_sym(a) or has_sym(b):
            raise core.PathAbort("np.allclose on symbolic data")
        return _np.allclose(a, b, *aa, **k)


class _MinMaxUfunc:
    """np.minimum / np.maximum: callable, with .accumulate/.reduce as the code uses them."""

    def __init__(self, facade, name):
        self._call = getattr(_NpFacade, "_" + name)
        self._facade = facade
        self._real = getattr(_np, name)
        self._lt = name == "minimum"

    def __call__(self, *a, **k):
        return self._call(self._facade, *a, **k)

    def _pick(self, x, y):
        if _is_nan(x) or _is_nan(y):
            return float("nan")
        return core.If(x <= y, x, y) if self._lt else core.If(x >= y, x, y)

    def accumulate(self, arr, *a, **k):
        if has_sym(arr) and not a and not k:
            xs = _elems(arr)
            out = []
            for x in xs:
                out.append(x if not out else self._pick(out[-1], x))
            return _like(arr, out)
        if isinstance(arr, (_np.ndarray, _pd.Series)) and arr.dtype == object:
            arr = _np.asarray(arr, dtype=float)
        return self._real.accumulate(arr, *a, **k)

    def reduce(self, arr, *a, **k):
        if has_sym(arr) and not a and not k:
            xs = _elems(arr)
            cur = xs[0]
            for x in xs[1:]:
                cur = self._pick(cur, x)
            return cur
        return self._real.reduce(arr, *a, **k)

    def __getattr__(self, name):
        return getattr(self._real, name)


_NpFacade._minimum = _NpFacade.minimum
_NpFacade._maximum = _NpFacade.maximum
del _NpFacade.minimum
del _NpFacade.maximum

# -- private generators -----------------------------------------------------------
# A RandomState the analysed code creates for itself (np.random.RandomState(seed)) is hidden state:
# it is tracked so that every path execution starts from the state a fresh process would have
# (re-seeded), while WITHIN one execution it advances from call to call as in the real program --
# which is what the history-independence harnesses (C10) look at.
_RS_REGISTRY = []


class _TrackedRandomState(_np.random.RandomState):
    def __init__(self, seed=None):
        super().__init__(seed)
        import weakref

        self._symx_state0 = self.get_state()
        _RS_REGISTRY.append(weakref.ref(self))


def reset_random_states():
    alive = []
    for ref in _RS_REGISTRY:
        rs = ref()
        if rs is not None:
            rs.set_state(rs._symx_state0)
            alive.append(ref)
    _RS_REGISTRY[:] = alive
    for g, st in _GEN_REGISTRY:
        g.bit_generator.state = st


_GEN_REGISTRY = []


def _tracked_default_rng(seed=None):
    g = _np.random.default_rng(seed)
    _GEN_REGISTRY.append((g, g.bit_generator.state))
    return g


class _RandomModuleFacade:
    RandomState = _TrackedRandomState
    default_rng = staticmethod(_tracked_default_rng)

    def __getattr__(self, name):
        return getattr(_np.random, name)


_NpFacade.random = _RandomModuleFacade()

np = _NpFacade()
np.minimum = _MinMaxUfunc(np, "minimum")
np.maximum = _MinMaxUfunc(np, "maximum")


class _MathFacade:
    def __getattr__(self, name):
        return getattr(_math, name)

    def isnan(self, x):
        if isinstance(x, Sym):
            return False
        return _math.isnan(x)

    def isfinite(self, x):
        if isinstance(x, Sym):
            return True
        return _math.isfinite(x)

    def sqrt(self, x):
        if isinstance(x, Sym):
            return core.sqrt(x)
        return _math.sqrt(x)

    def log2(self, x):
        if isinstance(x, Sym):
            return core.log2(x)
        return _math.log2(x)

    def log(self, x, base=None):
        if isinstance(x, Sym):
            if base == 2:
                return core.log2(x)
            raise core.PathAbort("math.log on symbolic value")
        return _math.log(x) if base is None else _math.log(x, base)

    def fabs(self, x):
        if isinstance(x, Sym):
            return abs(x)
        return _math.fabs(x)


math = _MathFacade()

FACADES = {"numpy": "np", "math": "math"}


# -- pandas patches (symbolic workers only) -------------------------------------


def canon_keys(values):
    """Replace every element of a key array by the first-seen element it is
    equal to (equality decided by the solver, forking), so that hashing-based
    pandas code (groupby, unique, duplicated ...) puts semantically equal keys
    into one bucket although a proxy and a plain number hash differently."""
    reps = []
    out = []
    for v in values:
        found = None
        for r in reps:
            if isinstance(v, Sym) or isinstance(r, Sym):
                same = bool(v == r)
            else:
                same = (v == r) or (_is_nan(v) and _is_nan(r))
            if same:
                found = r
                break
        if found is None:
            reps.append(v)
            found = v
        out.append(found)
    return _obj_array(out)


_patched = False


def install_pandas_patches():
    global _patched
    if _patched:
        return
    _patched = True
    orig_df_groupby = _pd.DataFrame.groupby
    orig_s_groupby = _pd.Series.groupby

    def df_groupby(self, by=None, *a, **k):
        if _sym_mode() and by is not None:
            names = by if isinstance(by, list) else [by]
            if all(isinstance(n, str) and n in self.columns for n in names):
                symcols = [n for n in names if self[n].dtype == object and has_sym(self[n])]
                if symcols:
                    self = self.copy()
                    for n in symcols:
                        self[n] = canon_keys(self[n].values)
            elif isinstance(by, (_pd.Series, _np.ndarray)) and by.dtype == object and has_sym(by):
                vals = canon_keys(by.values if isinstance(by, _pd.Series) else by)
                by = _pd.Series(vals, index=by.index) if isinstance(by, _pd.Series) else vals
        return orig_df_groupby(self, by, *a, **k)

    def s_groupby(self, by=None, *a, **k):
        if _sym_mode() and isinstance(by, (_pd.Series, _np.ndarray)) and by.dtype == object and has_sym(by):
            vals = canon_keys(by.values if isinstance(by, _pd.Series) else by)
            by = _pd.Series(vals, index=by.index) if isinstance(by, _pd.Series) else vals
        return orig_s_groupby(self, by, *a, **k)

    _pd.DataFrame.groupby = df_groupby
    _pd.Series.groupby = s_groupby

    orig_sort_values = _pd.DataFrame.sort_values

    def df_sort_values(self, by=None, *a, **k):
        # multi-key sorts factorise each key column through a hash table (Categorical):
        # a proxy and a plain number that are equal must be one category
        if _sym_mode() and isinstance(by, (list, tuple)) and len(by) > 1:
            symcols = [n for n in by if isinstance(n, str) and n in self.columns and self[n].dtype == object and has_sym(self[n])]
            mixed = [n for n in symcols if any(not isinstance(v, Sym) for v in self[n].values)]
            if mixed:
                self = self.copy()
                for n in mixed:
                    self[n] = canon_keys(self[n].values)
        return orig_sort_values(self, by, *a, **k)

    _pd.DataFrame.sort_values = df_sort_values

    orig_unique = _pd.Series.unique
    orig_dup = _pd.Series.duplicated
    orig_dropdup = _pd.Series.drop_duplicates

    def s_unique(self, *a, **k):
        if _sym_mode() and self.dtype == object and has_sym(self):
            return orig_unique(_pd.Series(canon_keys(self.values), index=self.index), *a, **k)
        return orig_unique(self, *a, **k)

    def s_duplicated(self, *a, **k):
        if _sym_mode() and self.dtype == object and has_sym(self):
            return orig_dup(_pd.Series(canon_keys(self.values), index=self.index), *a, **k)
        return orig_dup(self, *a, **k)

    def s_drop_duplicates(self, *a, **k):
        if _sym_mode() and self.dtype == object and has_sym(self):
            return orig_dropdup(_pd.Series(canon_keys(self.values), index=self.index, name=self.name), *a, **k)
        return orig_dropdup(self, *a, **k)

    _pd.Series.unique = s_unique
    _pd.Series.duplicated = s_duplicated
    _pd.Series.drop_duplicates = s_drop_duplicates


class _SymRolling:
    """Model of Series.rolling(window, min_periods, center=...) for object
    columns holding proxies: median / quantile / std / mean over the window's
    non-NaN values (NaN when fewer than min_periods)."""

    def __init__(self, series, window, min_periods=None, center=False):
        self.s = series
        self.window = _builtin_int(window)
        self.min_periods = self.window if min_periods is None else _builtin_int(min_periods)
        self.center = center

    def _windows(self):
        xs = list(self.s.values)
        n = len(xs)
        w = self.window
        for i in range(n):
            if self.center:
                # pandas: the centred window covers [i - window // 2, i - window // 2 + window)
                off = w // 2
                lo, hi = i - off, i - off + w
            else:
                lo, hi = i - w + 1, i + 1
            vals = [xs[j] for j in range(max(lo, 0), min(hi, n)) if not _is_nan(xs[j])]
            yield vals

    def _apply(self, f):
        out = []
        for vals in self._windows():
            out.append(f(vals) if len(vals) >= max(self.min_periods, 1) else float("nan"))
        return _pd.Series(_obj_array(out), index=self.s.index, dtype=object)

    def median(self):
        return self._apply(sym_median)

    def mean(self):
        return self._apply(sym_mean)

    def quantile(self, q, *a, **k):
        return self._apply(lambda v: sym_percentile(v, Fraction(q) * 100))

    def std(self, ddof=1):
        return self._apply(lambda v: core.sqrt(sym_var(v, ddof)) if len(v) > ddof else float("nan"))


_rolling_patched = False


def install_rolling_patch():
    global _rolling_patched
    if _rolling_patched:
        return
    _rolling_patched = True
    orig = _pd.Series.rolling

    def rolling(self, window, min_periods=None, center=False, *a, **k):
        if _sym_mode() and self.dtype == object and has_sym(self) and not a and not k:
            return _SymRolling(self, window, min_periods, center)
        return orig(self, window, min_periods, center, *a, **k)

    _pd.Series.rolling = rolling


_red_patched = False


def install_reduction_patches():
    """pd.Series.median / mean / std / var / quantile called as plain functions
    (e.g. ``estimator = pd.Series.median``) reach the same models as the
    rewritten method calls."""
    global _red_patched
    if _red_patched:
        return
    _red_patched = True
    for name in ("median", "mean", "std", "var"):
        orig = getattr(_pd.Series, name)
        model = _MODELS[name]

        def make(orig, model):
            def f(self, *a, **k):
                if _sym_mode() and self.dtype == object and has_sym(self):
                    return model(self, *a, **k)
                return orig(self, *a, **k)

            f.__name__ = orig.__name__
            return f

        setattr(_pd.Series, name, make(orig, model))


_csv_patched = False


def install_read_csv_patch():
    """pd.read_csv is C code: symbolic integers reach it as their unique decimal
    tokens (DESIGN.md 2.5).  After the real parser has run, token values in
    integer / float columns are mapped back to the proxies they stand for."""
    global _csv_patched
    if _csv_patched:
        return
    _csv_patched = True
    orig = _pd.read_csv

    def read_csv(*a, **k):
        df = orig(*a, **k)
        if not _sym_mode() or not isinstance(df, _pd.DataFrame):
            return df
        table = core.CUR.nonce_by_text
        if not table:
            return df
        for name in list(df.columns):
            colv = df[name]
            if colv.dtype.kind in "iu":
                vals = colv.values
                if len(vals) and (abs(vals) >= 700000000).any():
                    out = []
                    hit = False
                    for v in vals:
                        key = str(abs(_builtin_int(v)))
                        x = table.get(key)
                        if x is not None and isinstance(x, SymInt):
                            out.append(-x if v < 0 else x)
                            hit = True
                        else:
                            out.append(_builtin_int(v))
                    if hit:
                        df[name] = _pd.Series(_obj_array(out), index=df.index, dtype=object)
            elif colv.dtype.kind == "f":
                vals = colv.values
                out = []
                hit = False
                for v in vals:
                    x = None
                    if v == v and 0.7 <= abs(v) < 0.8:
                        x = table.get("%.10f" % abs(v))
                    if x is not None and isinstance(x, SymReal):
                        out.append(-x if v < 0 else x)
                        hit = True
                    else:
                        out.append(_builtin_float(v))
                if hit:
                    df[name] = _pd.Series(_obj_array(out), index=df.index, dtype=object)
        return df

    _pd.read_csv = read_csv


_assign_patched = False


_series_ctor_patched = False


def install_series_ctor_patch():
    """``pd.Series([<proxies>], dtype=np.float64)`` would ask every proxy for a machine number.
    While a symbolic run is on, a float dtype requested for a list / tuple / object array that
    holds proxies yields an object Series instead (as the float allocations of the numpy facade)."""
    global _series_ctor_patched
    if _series_ctor_patched:
        return
    _series_ctor_patched = True
    orig_init = _pd.Series.__init__

    def __init__(self, data=None, index=None, dtype=None, *a, **k):
        if dtype is not None and isinstance(data, (list, tuple, _np.ndarray)) and _sym_mode():
            try:
                is_float = _np.dtype(dtype).kind == "f"
            except TypeError:
                is_float = False
            if is_float and (not isinstance(data, _np.ndarray) or data.dtype == object) and has_sym(data):
                dtype = object
        orig_init(self, data, index, dtype, *a, **k)

    _pd.Series.__init__ = __init__


def install_assign_patch():
    """DataFrame.assign(col=<float>) allocates a float64 column; a later
    ``table.loc[mask, col] = <proxies>`` would be refused by pandas.  Like the
    float allocations of the numpy facade, such columns become object dtype
    while a symbolic run is on."""
    global _assign_patched
    if _assign_patched:
        return
    _assign_patched = True
    orig = _pd.DataFrame.assign

    def assign(self, **kwargs):
        out = orig(self, **kwargs)
        if _sym_mode():
            for k, v in kwargs.items():
                if isinstance(v, (float, _np.floating)) or (isinstance(v, _np.ndarray) and v.dtype.kind == "f"):
                    if k in out.columns and out[k].dtype.kind == "f":
                        out[k] = out[k].astype(object)
        return out

    _pd.DataFrame.assign = assign
