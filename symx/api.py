"""symx.api -- what a property module (symx/props/Cxx.py) uses."""
from __future__ import annotations

from .core import (  # noqa: F401
    Abs,
    And,
    Count,
    If,
    Iff,
    Implies,
    Max2,
    Min2,
    Not,
    Or,
    PathAbort,
    Sum,
    Sym,
    SymBool,
    SymInt,
    SymReal,
    approx,
    exp2,
    is_sym,
    le_approx,
    log2,
    phi,
    sqrt,
)
from . import core  # noqa: F401

_STUB_CLASSES = None


def _stub_class_names():
    """Names of the classes defined in the property modules: the stand-ins (stub readers, fake file
    systems, spies) live there."""
    global _STUB_CLASSES
    if _STUB_CLASSES is None:
        import ast
        import glob
        import os

        names = set()
        for f in glob.glob(os.path.join(os.path.dirname(os.path.abspath(__file__)), "props", "*.py")):
            try:
                tree = ast.parse(open(f).read())
            except SyntaxError:
                continue
            names.update(n.name for n in ast.walk(tree) if isinstance(n, ast.ClassDef))
        _STUB_CLASSES = names
    return _STUB_CLASSES


def stub_gap(exc):
    """True when an exception says that a stand-in object of the harness lacks something the code
    under test used (an attribute, a protocol): that is a gap of the harness -- the real object
    (a pysam file, a pyfaidx record) may well provide it -- and must not be reported as a
    violation of the property."""
    import re

    if not isinstance(exc, (AttributeError, TypeError, NotImplementedError)):
        return False
    obj = getattr(exc, "obj", None)
    if obj is not None and type(obj).__module__.startswith("symx.props"):
        return True
    return any(m in _stub_class_names() for m in re.findall(r"'(\w+)' object", str(exc)))


def claim_raised(ctx, what, exc):
    """The code under test raised: a failed claim '<what> raised <Type>' (stable label, message in
    info) -- unless the exception only shows that a stand-in is incomplete (harness error)."""
    if stub_gap(exc):
        raise core.HarnessError(f"a stand-in object of the harness lacks what the code uses ({type(exc).__name__}: {exc}); extend the stand-in")
    ctx.claim(False, f"{what} raised {type(exc).__name__}", info=str(exc)[:200])


class Harness:
    """One symbolic harness.

    fn(ctx, **config) -- runs the real code and states claims.
    configs           -- list of dicts; each has an optional key ``tier``
                         ('quick' (default) or 'thorough'); quick configs also
                         run in the thorough tier.
    covers            -- coverage-witness labels that must be reached by at
                         least one explored path (vacuity guard).
    """

    def __init__(
        self,
        name,
        fn,
        configs,
        covers=(),
        max_paths=20000,
        wall_s=240.0,
        thorough_wall_s=None,
        query_timeout_ms=10000,
        keep_uf=False,
        replay=True,
        note="",
        nonce_fork=True,
    ):
        self.name = name
        self.fn = fn
        self.configs = configs
        self.covers = tuple(covers)
        self.max_paths = max_paths
        self.wall_s = wall_s
        self.thorough_wall_s = thorough_wall_s or max(wall_s * 4, 900.0)
        self.query_timeout_ms = query_timeout_ms
        self.keep_uf = keep_uf
        self.replay = replay
        self.nonce_fork = nonce_fork
        self.note = note

    def configs_for(self, tier):
        out = []
        for c in self.configs:
            t = c.get("tier", "quick")
            if tier == "thorough" or t == "quick":
                out.append({k: v for k, v in c.items() if k != "tier"})
        return out


def rows_of(ga_or_df):
    """List of row namedtuples of a GenomicArray / DataFrame."""
    df = getattr(ga_or_df, "data", ga_or_df)
    return list(df.itertuples(index=False))


def in_any(rows, chrom, x):
    """x lies in some row of `rows` on chromosome `chrom` (symbolic or not)."""
    return Or(*[And(r.start <= x, x < r.end) for r in rows if r.chromosome == chrom])


def apply_case(ctx, case):
    """Restrict this job to one case of a case split over the inputs declared
    so far (the sibling cases are separate jobs, so nothing is lost).  `case`
    is a list of comparison expressions over input names, e.g. "as0<=as1"."""
    for expr in case or ():
        ctx.assume(eval(expr, {"__builtins__": {}}, dict(ctx.inputs)))


def split_cases(cfg, *binary_splits):
    """Expand one config into 2**k configs, one per combination of the given
    (expr_true, expr_false) pairs."""
    import itertools

    out = []
    for combo in itertools.product(*binary_splits):
        c = dict(cfg)
        c["case"] = list(combo)
        out.append(c)
    return out
