"""symx.api -- what a property module (symx/props/Cxx.py) uses."""
from __future__ import annotations

from .core import (  # noqa: F401
    Abs,
    And,
    Count,
    If,
    Iff,
    Implies,
    Max2,
    Min2,
    Not,
    Or,
    PathAbort,
    Sum,
    Sym,
    SymBool,
    SymInt,
    SymReal,
    approx,
    exp2,
    is_sym,
    le_approx,
    log2,
    phi,
    sqrt,
)
from . import core  # noqa: F401


class Harness:
    """One symbolic harness.

    fn(ctx, **config) -- runs the real code and states claims.
    configs           -- list of dicts; each has an optional key ``tier``
                         ('quick' (default) or 'thorough'); quick configs also
                         run in the thorough tier.
    covers            -- coverage-witness labels that must be reached by at
                         least one explored path (vacuity guard).
    """

    def __init__(
        self,
        name,
        fn,
        configs,
        covers=(),
        max_paths=20000,
        wall_s=240.0,
        thorough_wall_s=None,
        query_timeout_ms=10000,
        keep_uf=False,
        replay=True,
        note="",
        nonce_fork=True,
    ):
        self.name = name
        self.fn = fn
        self.configs = configs
        self.covers = tuple(covers)
        self.max_paths = max_paths
        self.wall_s = wall_s
        self.thorough_wall_s = thorough_wall_s or max(wall_s * 4, 900.0)
        self.query_timeout_ms = query_timeout_ms
        self.keep_uf = keep_uf
        self.replay = replay
        self.nonce_fork = nonce_fork
        self.note = note

    def configs_for(self, tier):
        out = []
        for c in self.configs:
            t = c.get("tier", "quick")
            if tier == "thorough" or t == "quick":
                out.append({k: v for k, v in c.items() if k != "tier"})
        return out


def rows_of(ga_or_df):
    """List of row namedtuples of a GenomicArray / DataFrame."""
    df = getattr(ga_or_df, "data", ga_or_df)
    return list(df.itertuples(index=False))


def in_any(rows, chrom, x):
    """x lies in some row of `rows` on chromosome `chrom` (symbolic or not)."""
    return Or(*[And(r.start <= x, x < r.end) for r in rows if r.chromosome == chrom])


def apply_case(ctx, case):
    """Restrict this job to one case of a case split over the inputs declared
    so far (the sibling cases are separate jobs, so nothing is lost).  `case`
    is a list of comparison expressions over input names, e.g. "as0<=as1"."""
    for expr in case or ():
        ctx.assume(eval(expr, {"__builtins__": {}}, dict(ctx.inputs)))


def split_cases(cfg, *binary_splits):
    """Expand one config into 2**k configs, one per combination of the given
    (expr_true, expr_false) pairs."""
    import itertools

    out = []
    for combo in itertools.product(*binary_splits):
        c = dict(cfg)
        c["case"] = list(combo)
        out.append(c)
    return out
