#!/usr/bin/env python3
"""Self-test helper: run a check against a mutated copy of /repo's cnvlib/skgenome.

  tools/mutant.py C01 cnvlib/call.py 'expect_copies * (1 - purity)' 'expect_copies * purity' [--only RX] [--tier quick]
  tools/mutant.py C01 --patch seeded/C01-x/patch.diff

Copies cnvlib/ and skgenome/ (sources only) to a scratch directory outside
/repo and /verif, applies the mutation there, runs ./check with VERIF_REPO
pointing at the copy and --no-evidence, prints the exit code and removes the
copy.  /repo itself is never touched.
"""
import argparse
import os
import shutil
import subprocess
import sys
import tempfile

HERE = os.path.dirname(os.path.dirname(os.path.abspath(__file__)))


def main():
    ap = argparse.ArgumentParser()
    ap.add_argument("pid")
    ap.add_argument("file", nargs="?")
    ap.add_argument("old", nargs="?")
    ap.add_argument("new", nargs="?")
    ap.add_argument("--patch")
    ap.add_argument("--only")
    ap.add_argument("--cfg")
    ap.add_argument("--tier", default="quick")
    ap.add_argument("--count", type=int, default=1, help="which occurrence of `old` (1-based); 0 = all")
    args = ap.parse_args()
    repo = os.environ.get("VERIF_REPO", "/repo")
    tmp = tempfile.mkdtemp(prefix="symx-mut-")
    try:
        for pkg in ("cnvlib", "skgenome"):
            shutil.copytree(os.path.join(repo, pkg), os.path.join(tmp, pkg), ignore=shutil.ignore_patterns("__pycache__", "*.pyc"))
        if args.patch:
            subprocess.check_call(["patch", "-p1", "-s", "-i", os.path.abspath(args.patch)], cwd=tmp)
        else:
            path = os.path.join(tmp, args.file)
            src = open(path).read()
            if args.old not in src:
                print("mutation target not found")
                return 3
            if args.count == 0:
                src = src.replace(args.old, args.new)
            else:
                parts = src.split(args.old)
                k = args.count
                src = args.old.join(parts[:k]) + args.new + args.old.join(parts[k:])
            open(path, "w").write(src)
        env = dict(os.environ, VERIF_REPO=tmp)
        cmd = [os.path.join(HERE, "check"), args.pid, "--tier", args.tier, "--no-evidence"]
        if args.only:
            cmd += ["--only", args.only]
        if args.cfg:
            cmd += ["--cfg", args.cfg]
        p = subprocess.run(cmd, env=env, capture_output=True, text=True)
        out = p.stdout.splitlines()
        keep = [l for l in out if l.startswith(("VIOLATION", "KNOWN-FINDING", "INCONCLUSIVE", "  harness=")) or " tier=" in l]
        print("\n".join(l[:600] for l in keep[:14]))
        if p.returncode not in (0, 1, 2):
            print(p.stderr[-2000:])
        print("exit", p.returncode)
        return 0
    finally:
        shutil.rmtree(tmp, ignore_errors=True)


if __name__ == "__main__":
    sys.exit(main())
