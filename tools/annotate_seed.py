#!/usr/bin/env python3
"""tools/annotate_seed.py <seed-dir-name> <first-exit|-> <text>: records in seeded/<name>/meta.json
that the check was strengthened for this seed (exit code of the first run, or '-' when the harness
was extended before any run) -- confirm_seed.sh rewrites meta.json, so run this after it."""
import json, os, sys
here = os.path.dirname(os.path.dirname(os.path.abspath(__file__)))
name, first, text = sys.argv[1:4]
p = os.path.join(here, "seeded", name, "meta.json")
m = json.load(open(p))
if first != "-":
    m["first_quick_check_exit_with_patch"] = int(first)
m["strengthening"] = text
json.dump(m, open(p, "w"), indent=1)
print("annotated", name)
