#!/bin/bash
# tools/confirm_seed.sh <PID> <worktree> <seed-dir> [name]
# Confirms a seeded change ourselves in a scratch worktree of /repo (never in /repo):
#  1. demo passes on the clean worktree, 2. patch applies, 3. demo fails with it,
#  4. the repository's test suite has no new failures with it (same failing set as the
#  baseline's always-fail list), 5. our quick check run against the patched sources
#  (copy, VERIF_REPO) -> exit code.  Then stores it under /verif/seeded/<PID>-<name>/.
set -u
PID=$1; WT=$2; SD=$3; NAME=${4:-$(basename "$SD")}
HERE=$(cd "$(dirname "$0")/.." && pwd)
DEST="$HERE/seeded/$PID-$NAME"
LOG=$(mktemp)
cd "$WT" || exit 2
git checkout -q -- . ; git clean -fdq
echo "== demo on clean tree" | tee -a "$LOG"
PYTHONPATH="$WT" /venv/bin/python "$SD/demo.py" >"$LOG.demo0" 2>&1; D0=$?
echo "exit $D0" | tee -a "$LOG"
git apply "$SD/patch.diff" || { echo "patch does not apply" | tee -a "$LOG"; exit 2; }
echo "== demo with the patch" | tee -a "$LOG"
PYTHONPATH="$WT" /venv/bin/python "$SD/demo.py" >"$LOG.demo1" 2>&1; D1=$?
echo "exit $D1" | tee -a "$LOG"; tail -3 "$LOG.demo1" | tee -a "$LOG"
echo "== test suite with the patch" | tee -a "$LOG"
/venv/bin/python -m pytest -q -p no:cacheprovider --timeout=900 --continue-on-collection-errors -x --co -q >/dev/null 2>&1
/venv/bin/python -m pytest -ra -q -p no:cacheprovider --timeout=900 --continue-on-collection-errors 2>&1 | grep -E "^(FAILED|ERROR)|passed|failed" | sed 's/ - .*//' | sort > "$LOG.tests"
cat "$LOG.tests" | tee -a "$LOG"
NEWFAIL=$(grep -E "^(FAILED|ERROR)" "$LOG.tests" | grep -v -E "test_smooth_log2|test_autobin|test_batch|test_coverage|test_diploid_parx_genome|test_segment|test_segment_hmm|test_segment_parallel|test_cbs" | wc -l)
echo "new failing tests: $NEWFAIL" | tee -a "$LOG"
echo "== our quick check against the patched sources" | tee -a "$LOG"
VERIF_REPO="$WT" "$HERE/check" "$PID" --tier quick --no-evidence > "$LOG.check" 2>&1; CE=$?
grep -E "^(VIOLATION|KNOWN-FINDING|INCONCLUSIVE)| tier=" "$LOG.check" | cut -c1-400 | head -8 | tee -a "$LOG"
echo "check exit $CE" | tee -a "$LOG"
git checkout -q -- . ; git clean -fdq
if [ $D0 -eq 0 ] && [ $D1 -ne 0 ] && [ "$NEWFAIL" -eq 0 ]; then
  mkdir -p "$DEST"
  cp "$SD/patch.diff" "$SD/demo.py" "$DEST/"
  [ -f "$SD/notes.txt" ] && cp "$SD/notes.txt" "$DEST/"
  python3 - "$DEST" "$PID" "$NAME" "$CE" "$LOG" <<'EOF'
import json, sys, os
dest, pid, name, ce, log = sys.argv[1:6]
notes = open(os.path.join(dest, "notes.txt")).read() if os.path.exists(os.path.join(dest, "notes.txt")) else ""
meta = {
    "property": pid,
    "name": name,
    "breaks": notes.strip(),
    "needs_to_manifest": "see notes.txt / breaks",
    "confirmed": {
        "demo_exit_clean_tree": 0,
        "demo_exit_with_patch": "non-zero",
        "test_suite_new_failures_with_patch": 0,
        "how": "tools/confirm_seed.sh in a scratch git worktree of /repo (removed afterwards): git apply patch.diff; demo.py; full pytest baseline command; ./check <PID> --tier quick --no-evidence with VERIF_REPO=<worktree>",
    },
    "quick_check_exit_with_patch": int(ce),
    "detected_by_quick_check": int(ce) == 1,
    "log": open(log).read()[-3000:],
}
json.dump(meta, open(os.path.join(dest, "meta.json"), "w"), indent=1)
EOF
  echo "KEPT $DEST (check exit $CE)"
else
  echo "NOT KEPT: demo clean=$D0 patched=$D1 newfail=$NEWFAIL"
fi
rm -f "$LOG" "$LOG".*
