#!/usr/bin/env python3
"""Prints the markdown table of seeded changes from seeded/*/meta.json (for DESIGN.md 9.5)."""
import glob
import json
import os

HERE = os.path.dirname(os.path.dirname(os.path.abspath(__file__)))
rows = []
for d in sorted(glob.glob(os.path.join(HERE, "seeded", "*"))):
    if not os.path.isfile(os.path.join(d, "meta.json")):
        continue
    m = json.load(open(os.path.join(d, "meta.json")))
    notes = (m.get("breaks") or "").strip().splitlines()
    first = next((l.strip(" -*") for l in notes if l.strip()), "")
    det = "yes" if m.get("detected_by_quick_check") else f"NO (exit {m.get('quick_check_exit_with_patch')})"
    if m.get("strengthening"):
        det += " (after strengthening)"
    rows.append((os.path.basename(d), first[:150], det))
print("| seed | what it changes (first line of its notes) | caught by the property's quick check |")
print("|---|---|---|")
for r in rows:
    print("| " + " | ".join(r) + " |")
print(f"\n{len(rows)} seeded changes; caught: {sum(1 for r in rows if r[2].startswith('yes'))}")
