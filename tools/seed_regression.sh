#!/bin/bash
# tools/seed_regression.sh [pattern]: re-runs the quick check of every kept seeded change against a
# scratch worktree of /repo's main with the patch applied (VERIF_REPO), and prints one line per seed.
# Patches made against an older commit of /repo that no longer apply are reported as such.
HERE=$(cd "$(dirname "$0")/.." && pwd)
WT=${WT:-/tmp/wt-reg}
PAT=${1:-.}
JOBS=${VERIF_JOBS:-5}
git -C /repo worktree add --detach "$WT" main >/dev/null 2>&1 || true
for d in $(ls -d "$HERE"/seeded/*/ | grep -v _rejected | grep -E "$PAT"); do
  n=$(basename "$d"); pid=${n%%-*}
  git -C "$WT" checkout -q -- . ; git -C "$WT" clean -fdq
  if ! git -C "$WT" apply "$d/patch.diff" 2>/dev/null; then echo "$n patch-does-not-apply-to-main"; continue; fi
  VERIF_JOBS=$JOBS VERIF_REPO="$WT" nice -n 10 "$HERE/check" "$pid" --tier quick --no-evidence >/tmp/seedreg.$$.log 2>&1; ce=$?
  echo "$n exit=$ce $(grep -c '^VIOLATION' /tmp/seedreg.$$.log) violations"
done
git -C "$WT" checkout -q -- . ; git -C /repo worktree remove --force "$WT"; rm -f /tmp/seedreg.$$.log
